package main

import (
	"fmt"
	"go/constant"
	"go/token"
	"go/types"
	"sort"

	"golang.org/x/tools/go/ssa"
)

func init() {
	register("C09", "other", runC09)
	d := registry["C09"]
	d.Post = postTags("C09")
	registry["C09"] = d
}

// reviewed limits (bytes) per attribute code point (RFC 5389 15.3/15.6/15.7/15.8/15.10 as implemented: see DESIGN.md)
var textLimits = map[int64]int64{
	0x0006: 513, // USERNAME
	0x0014: 763, // REALM
	0x0015: 763, // NONCE
	0x8022: 763, // SOFTWARE
	0x0009: 763, // ERROR-CODE reason phrase
}

// derivesFromRaw: slice value derives from a load of Message.Raw.
func derivesFromRaw(v ssa.Value, raw *types.Var, depth int) bool {
	if v == nil || depth > 8 {
		return false
	}
	switch x := v.(type) {
	case *ssa.Slice:
		return derivesFromRaw(x.X, raw, depth+1)
	case *ssa.Phi:
		for _, e := range x.Edges {
			if derivesFromRaw(e, raw, depth+1) {
				return true
			}
		}
	case *ssa.UnOp:
		if x.Op == token.MUL {
			if _, f := addrField(x.X); f == raw {
				return true
			}
		}
	case *ssa.ChangeType:
		return derivesFromRaw(x.X, raw, depth+1)
	}
	return false
}

type mutInfo struct {
	p         *Prog
	protected map[*types.Var]bool
	raw       *types.Var
	memo      map[*ssa.Function]bool
}

func newMutInfo(p *Prog) *mutInfo {
	m := &mutInfo{p: p, protected: map[*types.Var]bool{}, memo: map[*ssa.Function]bool{}}
	msg := p.Named("Message")
	for _, n := range []string{"Raw", "Length", "Attributes"} {
		if fv := FieldVar(msg, n); fv != nil {
			m.protected[fv] = true
		}
	}
	m.raw = FieldVar(msg, "Raw")
	return m
}

// direct: the instruction itself changes the protected state of a message.
func (m *mutInfo) direct(in ssa.Instruction) bool {
	if st, ok := in.(*ssa.Store); ok {
		if _, f := addrField(st.Addr); f != nil && m.protected[f] {
			return true
		}
	}
	if dst := byteWriteDst(in); dst != nil && derivesFromRaw(dst, m.raw, 0) {
		return true
	}
	return false
}

// mutator: fn (transitively through module calls) may change protected message state.
func (m *mutInfo) mutator(fn *ssa.Function) bool {
	if v, ok := m.memo[fn]; ok {
		return v
	}
	m.memo[fn] = false
	res := false
	if fn.Blocks != nil {
		eachInstr(fn, func(b *ssa.BasicBlock, i int, in ssa.Instruction) {
			if m.direct(in) {
				res = true
			}
		})
		for _, cs := range m.p.CG().Sites[fn] {
			for _, g := range cs.Callees {
				if m.p.isLibFn(g) && m.mutator(g) {
					res = true
				}
			}
		}
	}
	m.memo[fn] = res
	return res
}

func hasErrorResult(fn *ssa.Function) bool { return errorResultIndex(fn) >= 0 }

// checkAtomic: on no path to a return of a non-nil error has the protected state been changed.
func checkAtomic(r *Run, rc *RuleCtx, mi *mutInfo, fn *ssa.Function) {
	p := r.P
	idx := errorResultIndex(fn)
	if idx < 0 {
		return
	}
	// pending calls: calls to error-returning mutators (atomic by their own check)
	var pending []ssa.Value
	pendIdx := map[ssa.Instruction]int{}
	eachInstr(fn, func(b *ssa.BasicBlock, i int, in ssa.Instruction) {
		c, ok := in.(*ssa.Call)
		if !ok {
			return
		}
		isPending := false
		for _, cs := range p.CG().Sites[fn] {
			if cs.Instr != ssa.CallInstruction(c) {
				continue
			}
			for _, g := range cs.Callees {
				if p.isLibFn(g) && mi.mutator(g) && hasErrorResult(g) {
					isPending = true
				}
			}
			if cs.ExtIface != "" && c.Call.IsInvoke() && c.Call.Method.Name() == "AddTo" {
				isPending = true // user-supplied Setter: assumed atomic as the property demands of library setters only
			}
		}
		if isPending && len(pending) < 30 {
			pendIdx[in] = len(pending)
			pending = append(pending, c)
		}
	})
	q := &PathQuery{P: p, Fn: fn}
	q.Step = func(in ssa.Instruction, deferred bool, st uint64, c *PathCtx) (uint64, bool) {
		if _, isDefer := in.(*ssa.Defer); isDefer && !deferred {
			return st, false
		}
		if mi.direct(in) {
			return st | 1, false
		}
		if i, ok := pendIdx[in]; ok {
			return st | (1 << uint(i+1)), false
		}
		if ci, ok := in.(ssa.CallInstruction); ok {
			for _, cs := range p.CG().Sites[fn] {
				if cs.Instr != ci {
					continue
				}
				for _, g := range cs.Callees {
					if p.isLibFn(g) && mi.mutator(g) && !hasErrorResult(g) {
						return st | 1, false
					}
				}
			}
		}
		return st, false
	}
	reported := map[*ssa.Return]bool{}
	q.AtReturn = func(ret *ssa.Return, st uint64, c *PathCtx) {
		v := c.Resolve(deref(ret.Results[idx]))
		if c.NilState(v) == +1 {
			return
		}
		if reported[ret] {
			return
		}
		if st&1 != 0 {
			reported[ret] = true
			rc.ViolationPath(fn, instrPos(ret), "mutation before error return", "the message (raw bytes, length or attribute list) has been changed on a path that returns a non-nil error: a failing setter must leave the message exactly as before", c.Witness(fn, ret))
			return
		}
		for i, pc := range pending {
			if st&(1<<uint(i+1)) == 0 {
				continue
			}
			if v == pc || c.NilState(pc) == -1 {
				continue // the callee failed (atomically) and its error is what we return / is known non-nil
			}
			if e, ok := v.(*ssa.Extract); ok && e.Tuple == pc {
				continue
			}
			reported[ret] = true
			rc.ViolationPath(fn, instrPos(ret), "error return after a successful nested setter", "a nested mutator succeeded before this error return: the message is changed although the setter fails", c.Witness(fn, ret))
			return
		}
	}
	q.Run()
	if q.Exhausted {
		rc.Violation(fn, fn.Pos(), "path exploration exhausted", "undecided")
	}
}

// linCap: constant capacity of a make'd slice.
func constCap(v ssa.Value) (int64, bool) {
	switch x := v.(type) {
	case *ssa.MakeSlice:
		return constInt(x.Cap)
	case *ssa.Slice:
		// slice of a fresh array: new [N]T
		if a, ok := x.X.(*ssa.Alloc); ok {
			if pt, ok := a.Type().Underlying().(*types.Pointer); ok {
				if at, ok := pt.Elem().Underlying().(*types.Array); ok {
					return at.Len(), true
				}
			}
		}
		return constCap(x.X)
	}
	return 0, false
}

func runC09(r *Run) {
	p := r.P
	r.Res.Explanation = "path rules over every Setter implementer: no mutation of raw bytes, length or attribute list on any path that returns a non-nil error (PATH, predicate consistent, nested setters by their own atomicity); effective length limits derived from the CheckOverflow call sites and compared with the reviewed table; IP length guard on every path to Add; default-reason and FINGERPRINT guards; Build stops at the first error; release and debug helper variants agree"
	r.NotDecided("that every value within the limits is accepted by user-supplied Setter implementations (only library setters are analysed)")
	r.Assume("nil-return summary of CheckOverflow (got <= max), established by rule C09.tags in both tag sets")
	cl := p.buildClosures()
	mi := newMutInfo(p)
	an := r.Rule("C09.anchors", "Setter implementers and Message.Add resolve", 15)
	for _, m := range cl.missing {
		an.Fail(m, "anchor not found")
	}
	for _, f := range cl.Setters {
		an.Instance(fnName(f), false, nil)
	}
	addFn := p.Meth("Message", "Add")
	if addFn == nil {
		an.Fail("(*Message).Add", "not found")
	}
	an.Done()
	if addFn == nil {
		return
	}

	// ---- atomic
	at := r.Rule("C09.atomic", "in every setter (and every error-returning mutator it calls) no successful change of Raw, Length or Attributes lies on a path to a return of a non-nil error", 15)
	scope := map[*ssa.Function]bool{}
	for _, f := range cl.Setters {
		scope[f] = true
	}
	buildFn := p.Meth("Message", "Build")
	for _, f := range cl.S {
		if f.Pkg == p.Stun && mi.mutator(f) && hasErrorResult(f) && f != buildFn && f.Parent() == nil {
			// decode entry points are not setters (they replace the message by design)
			if fnIn(f, cl.DEntries) {
				continue
			}
			// MessageIntegrity.Check restores (C07.restore)
			if fnIn(f, cl.Checkers) || f.Name() == "Check" || f.Name() == "Parse" || f.Name() == "ForEach" {
				continue
			}
			scope[f] = true
		}
	}
	var fl []*ssa.Function
	for f := range scope {
		fl = append(fl, f)
	}
	fl = dedupFns(fl)
	for _, fn := range fl {
		if fn.Blocks == nil {
			continue
		}
		r.Analysed(fn)
		at.Instance(fnName(fn), true, map[string]interface{}{"fn": fnName(fn), "mutator": mi.mutator(fn)})
		checkAtomic(r, at, mi, fn)
	}
	// positive control: Build (by design not atomic) is recognised as non-atomic
	if buildFn != nil {
		ctl := r.Rule("C09.atomic.control", "positive control: the atomicity query reports Message.Build (documented as not atomic: it stops at the first failing setter)", 0)
		checkAtomic(r, ctl, mi, buildFn)
		n := ctl.rr.Violations
		// drop the control's findings
		var keep []Finding
		for _, f := range r.Res.Findings {
			if f.Rule != "C09.atomic.control" {
				keep = append(keep, f)
			}
		}
		r.Res.Findings = keep
		if n == 0 {
			at.Fail("control", "positive control failed: the atomicity query no longer reports Message.Build")
		} else {
			at.Instance("control: Build reported as non-atomic", false, nil)
		}
	}
	at.Done()

	// ---- limits
	lim := r.Rule("C09.limits", "each text setter reaches Add only through the nil edge of CheckOverflow(type, len(value)+k, max) and the effective limit max-k for its attribute type equals the reviewed value", 5)
	checkLimits(r, lim, cl, addFn)
	lim.Done()

	// ---- ip
	// ---- a scratch buffer holds every value the length check lets through
	scr := r.Rule("C09.scratch", "a setter that builds its value in a fixed-capacity scratch buffer re-slices it only to a length proved not to exceed that capacity (from the nil edge of its length check): every value within the limit is encoded, none makes the setter panic", 1)
	{
		n := 0
		for _, fn := range cl.Setters {
			if fn.Blocks == nil || !p.isLibFn(fn) {
				continue
			}
			var pr *Prover
			eachInstr(fn, func(b *ssa.BasicBlock, i int, in ssa.Instruction) {
				sl, ok := in.(*ssa.Slice)
				if !ok || sl.High == nil {
					return
				}
				capC, okC := scratchCapOf(sl.X, 0, map[ssa.Value]bool{})
				if !okC || capC < 0 {
					return
				}
				switch sliceRoot(sl.X).(type) {
				case *ssa.MakeSlice, *ssa.Phi, *ssa.Alloc:
				default:
					return
				}
				if hc, isC := constInt(sl.High); isC && hc <= capC {
					return
				}
				if pr == nil {
					pr = newProver(p, fn)
					r.Analysed(fn)
				}
				n++
				// the values the bound is built from (a merged slice among them is split per incoming value)
				var extra []ssa.Value
				var collect func(v ssa.Value, depth int)
				collect = func(v ssa.Value, depth int) {
					if depth > 4 || v == nil {
						return
					}
					switch y := v.(type) {
					case *ssa.BinOp:
						collect(y.X, depth+1)
						collect(y.Y, depth+1)
					case *ssa.Convert:
						collect(y.X, depth+1)
					case *ssa.Call:
						if isBuiltinCall(y, "len") {
							extra = append(extra, y.Call.Args[0])
						}
					}
				}
				collect(sl.High, 0)
				res := pr.Prove(sl, Goal{X: sl.High, YL: &lin{zeroTerm, capC}, C: 0, extra: extra})
				if !res.OK {
					// path by path: the slices merged into the bound read as the value they have on the path, under
					// the branch conditions of the path (a length guard written as a disjunction, or behind a helper)
					var linOf func(v ssa.Value, c *PathCtx, depth int) (lin, []ssa.Value, bool)
					linOf = func(v ssa.Value, c *PathCtx, depth int) (lin, []ssa.Value, bool) {
						if depth > 4 {
							return lin{}, nil, false
						}
						if cv, isC := constInt(v); isC {
							return lin{zeroTerm, cv}, nil, true
						}
						switch y := v.(type) {
						case *ssa.BinOp:
							if cy, isC := constInt(y.Y); isC && (y.Op == token.ADD || y.Op == token.SUB) {
								l, ex, ok := linOf(y.X, c, depth+1)
								if y.Op == token.SUB {
									cy = -cy
								}
								l.Off += cy
								return l, ex, ok
							}
						case *ssa.Call:
							if isBuiltinCall(y, "len") {
								rx := c.Resolve(y.Call.Args[0])
								return pr.linLen(rx, "len"), []ssa.Value{rx}, true
							}
						}
						rv := c.Resolve(v)
						return pr.lin(rv), []ssa.Value{rv}, true
					}
					q := &PathQuery{P: p, Fn: fn, MaxStates: 4000}
					reached, allOK := 0, true
					goalTxt := res.Goal
					q.Step = func(in2 ssa.Instruction, deferred bool, st uint64, c *PathCtx) (uint64, bool) {
						if in2 != ssa.Instruction(sl) || deferred {
							return st, false
						}
						reached++
						l, ex, ok := linOf(sl.High, c, 0)
						if !ok {
							allOK = false
							return st, true
						}
						r2 := pr.Prove(sl, Goal{XL: &l, YL: &lin{zeroTerm, capC}, C: 0, extra: ex, assume: c.PathConds()})
						if !r2.OK {
							allOK = false
							goalTxt = r2.Goal + " on the path " + c.Witness(fn, sl)
						}
						return st, true
					}
					q.Run()
					if reached > 0 && allOK && !q.Exhausted {
						res.OK = true
					} else {
						res.Goal = goalTxt
					}
				}
				scr.Instance(fnName(fn)+"|"+exprDepth(sl, 0), true, map[string]interface{}{"setter": fnName(fn), "reslice": exprDepth(sl, 0), "capacity": capC, "proved": res.OK})
				if !res.OK {
					scr.Violation(fn, instrPos(sl), "re-slice "+exprDepth(sl, 0)+" beyond the scratch capacity "+fmt.Sprint(capC), "cannot prove "+res.Goal+": for the longest values the length check admits the re-slice exceeds the buffer's capacity and the setter panics instead of encoding the value")
				}
			})
		}
		if n == 0 {
			scr.Fail("scratch re-slice", "no setter re-slices a fixed-capacity scratch buffer: anchor moved")
		}
	}
	scr.Done()

	ip := r.Rule("C09.ip", "every path to Add in the address setters passes len(IP) == 16 (true) or len(IP) == 4 (true)", 2)
	checkIPGuard(r, ip, addFn)
	ip.Done()

	// ---- reason
	rs := r.Rule("C09.reason", "ErrorCode.AddTo returns an error when the code has no default reason, before anything is added", 1)
	checkReason(r, rs)
	rs.Done()

	// ---- fingerprint guard
	fp := r.Rule("C09.fp", "MessageIntegrity.AddTo scans the whole attribute list for FINGERPRINT (or asks Contains) before its first mutation and fails if present", 1)
	checkFPGuard(r, fp, mi)
	fp.Done()

	// ---- build
	bd := r.Rule("C09.build", "Build resets, writes the header, applies the setters in order and returns the first non-nil error unchanged", 1)
	checkBuild(r, bd)
	bd.Done()

	// ---- tags
	tg := r.Rule("C09.tags", "CheckSize/CheckOverflow/checkHMAC/checkFingerprint return nil exactly under their reference condition in this configuration (parent compares release and debug)", 4)
	r.Res.Extra = map[string]interface{}{"nilconds": checkHelperConds(r, tg)}
	tg.Done()
}

func checkLimits(r *Run, rc *RuleCtx, cl *closures, addFn *ssa.Function) {
	p := r.P
	co := p.Fn("CheckOverflow")
	if co == nil {
		rc.Fail("CheckOverflow", "not found")
		return
	}
	type site struct {
		fn      *ssa.Function
		call    *ssa.Call
		typ     ssa.Value
		gotOff  int64
		gotBase ssa.Value // the slice whose len is checked
		max     ssa.Value
	}
	var sites []site
	for _, fn := range cl.S {
		eachInstr(fn, func(b *ssa.BasicBlock, i int, in ssa.Instruction) {
			c, ok := in.(*ssa.Call)
			if !ok || !callsFn(c, co) || len(c.Call.Args) != 3 {
				return
			}
			s := site{fn: fn, call: c, typ: c.Call.Args[0], max: c.Call.Args[2]}
			// got = len(x) + k
			g := c.Call.Args[1]
			for {
				if b, ok := g.(*ssa.BinOp); ok && b.Op == token.ADD {
					if k, ok := constInt(b.Y); ok {
						s.gotOff += k
						g = b.X
						continue
					}
					if k, ok := constInt(b.X); ok {
						s.gotOff += k
						g = b.Y
						continue
					}
				}
				break
			}
			if lc, ok := g.(*ssa.Call); ok && isBuiltinCall(lc, "len") {
				s.gotBase = lc.Call.Args[0]
			}
			sites = append(sites, s)
		})
	}
	if len(sites) == 0 {
		rc.Fail("CheckOverflow call sites", "no call site of CheckOverflow in the setter closure")
		return
	}
	constMax := func(v ssa.Value) (int64, bool) {
		if c, ok := constInt(v); ok {
			return c, true
		}
		if c, ok := v.(*ssa.Call); ok && isBuiltinCall(c, "cap") {
			return constCap(c.Call.Args[0])
		}
		if c, ok := v.(*ssa.Call); ok && isBuiltinCall(c, "len") {
			if mk, ok := c.Call.Args[0].(*ssa.MakeSlice); ok {
				return constInt(mk.Len)
			}
		}
		return 0, false
	}
	seenTypes := map[int64]bool{}
	checkPair := func(where *ssa.Function, pos token.Pos, typ ssa.Value, eff int64) {
		t, ok := constInt(typ)
		if !ok {
			return
		}
		want, known := textLimits[t]
		if known {
			seenTypes[t] = true
		}
		key := fmt.Sprintf("%s|type %#x", fnName(where), t)
		rc.Instance(key, true, map[string]interface{}{"setter": fnName(where), "attr_type": fmt.Sprintf("%#04x", t), "effective_limit": eff, "reviewed_limit": want})
		if !known {
			return
		}
		if eff != want {
			rc.Violation(where, pos, fmt.Sprintf("limit %d for attribute %#04x", eff, t), fmt.Sprintf("values up to %d bytes are accepted (or values above %d rejected) where the reviewed limit is %d", eff, eff, want))
		}
	}
	for _, s := range sites {
		r.Analysed(s.fn)
		if s.gotBase == nil {
			rc.Violation(s.fn, instrPos(s.call), "CheckOverflow operand", "the checked quantity is not len(value)+k: limit undecided")
			continue
		}
		// Add must be dominated by the nil edge of this call
		var adds []*ssa.Call
		eachInstr(s.fn, func(b *ssa.BasicBlock, i int, in ssa.Instruction) {
			if c, ok := in.(*ssa.Call); ok && callsFn(c, addFn) {
				adds = append(adds, c)
			}
		})
		cis := ifsOn(s.fn, func(v ssa.Value) bool {
			b, ok := v.(*ssa.BinOp)
			if !ok || (b.Op != token.EQL && b.Op != token.NEQ) {
				return false
			}
			return (b.X == ssa.Value(s.call) && isNilConst(b.Y)) || (b.Y == ssa.Value(s.call) && isNilConst(b.X))
		})
		for _, ad := range adds {
			ok := false
			for _, ci := range cis {
				b := ci.Val.(*ssa.BinOp)
				nilEdge := ci.OnTrue
				if b.Op == token.NEQ {
					nilEdge = ci.OnFalse
				}
				if len(nilEdge.Preds) == 1 && blockDominates(nilEdge, ad.Block()) {
					ok = true
				}
			}
			if !ok {
				rc.Violation(s.fn, instrPos(ad), "Add not guarded by CheckOverflow", "the attribute is added on a path that did not pass the nil edge of the length check")
			}
			// the added value must be the checked one (same base) or a buffer of len(base)+k
			if len(ad.Call.Args) == 3 {
				val := ad.Call.Args[2]
				if !(aliasOf(val, s.gotBase, 0) || lenTiedTo(val, s.gotBase, s.gotOff)) {
					rc.Violation(s.fn, instrPos(ad), "Add of an unchecked value", "the value handed to Add is not the one whose length was checked")
				}
			}
		}
		if m, ok := constMax(s.max); ok {
			checkPair(s.fn, instrPos(s.call), s.typ, m-s.gotOff)
			continue
		}
		// max is a parameter: resolve at the static callers in the library
		pa, isParam := s.max.(*ssa.Parameter)
		if !isParam {
			rc.Violation(s.fn, instrPos(s.call), "CheckOverflow maximum", "the maximum is neither a constant nor a parameter: limit undecided")
			continue
		}
		pi, ti := -1, -1
		for i, q := range s.fn.Params {
			if q == pa {
				pi = i
			}
			if q == s.typ {
				ti = i
			}
		}
		n := 0
		for _, caller := range p.LibFuncs() {
			eachInstr(caller, func(b *ssa.BasicBlock, i int, in ssa.Instruction) {
				c, ok := in.(*ssa.Call)
				if !ok || !callsFn(c, s.fn) || pi < 0 || pi >= len(c.Call.Args) {
					return
				}
				m, ok := constInt(c.Call.Args[pi])
				if !ok {
					// the limit looked up by a constant table function for a constant attribute type
					if lc, isC := stripConvs(c.Call.Args[pi]).(*ssa.Call); isC && len(lc.Call.Args) == 1 {
						if sc := lc.Call.StaticCallee(); sc != nil && p.isLibFn(sc) {
							if a, isK := lc.Call.Args[0].(*ssa.Const); isK && a.Value != nil {
								if res, okE := constFnEval(p, sc, a.Value); okE {
									if cv := constant.MakeFromLiteral(res, token.INT, 0); cv.Kind() == constant.Int {
										if iv, exact := constant.Int64Val(cv); exact {
											m, ok = iv, true
										}
									}
								}
							}
						}
					}
				}
				if !ok {
					return
				}
				n++
				if ti >= 0 {
					checkPair(caller, instrPos(c), c.Call.Args[ti], m-s.gotOff)
				}
			})
		}
		if n == 0 && s.fn.Object() != nil && s.fn.Object().Exported() {
			// an exported setter nobody in the library calls any more: the limit is its caller's; the typed setters
			// must then carry their own checks (every reviewed attribute type is accounted for below)
			rc.Instance(fnName(s.fn)+"|limit from the caller", true, map[string]string{"setter": fnName(s.fn), "limit": "parameter of an exported function without library callers"})
			continue
		}
		if n == 0 {
			rc.Violation(s.fn, instrPos(s.call), "no caller with constant limit", "no library caller passes a constant limit: limits undecided")
		}
	}
	// every attribute type of the reviewed table has a length check somewhere in the setter closure
	var missing []int64
	for t := range textLimits {
		if !seenTypes[t] {
			missing = append(missing, t)
		}
	}
	sort.Slice(missing, func(i, j int) bool { return missing[i] < missing[j] })
	for _, t := range missing {
		rc.Violation(sites[0].fn, instrPos(sites[0].call), fmt.Sprintf("no length check for attribute %#04x", t), "no setter checks a value of this attribute type against a constant limit: the reviewed limit is not enforced")
	}
}

// lenTiedTo: val is a slice value[:k+len(base)] (a scratch buffer sized from the checked length).
func lenTiedTo(val, base ssa.Value, off int64) bool {
	sl, ok := val.(*ssa.Slice)
	if !ok || sl.High == nil {
		// value assigned earlier: value = value[:k+len(base)] ; follow one phi-less step
		return false
	}
	h := sl.High
	var k int64
	for {
		if b, ok := h.(*ssa.BinOp); ok && b.Op == token.ADD {
			if c, ok := constInt(b.Y); ok {
				k += c
				h = b.X
				continue
			}
			if c, ok := constInt(b.X); ok {
				k += c
				h = b.Y
				continue
			}
		}
		break
	}
	if lc, ok := h.(*ssa.Call); ok && isBuiltinCall(lc, "len") {
		_ = off
		return sameSlice(lc.Call.Args[0], base) // len(value) = len(checked)+k for a constant k: the limit applies to the checked slice
	}
	return false
}

func sameSlice(a, b ssa.Value) bool {
	if a == b {
		return true
	}
	k := newKeyer()
	k.pureFieldLoads = true
	k.fwdLocal = true
	return k.Key(a) == k.Key(b)
}

func checkIPGuard(r *Run, rc *RuleCtx, addFn *ssa.Function) {
	p := r.P
	for _, tn := range []string{"XORMappedAddress", "MappedAddress"} {
		fn := p.Meth(tn, "AddToAs")
		if fn == nil {
			rc.Fail(tn+".AddToAs", "not found")
			continue
		}
		r.Analysed(fn)
		ipF := FieldVar(p.Named(tn), "IP")
		// classify Ifs: key -> constant compared with len(IP-derived)
		k := newKeyer()
		lenConst := map[string]int64{}
		for _, b := range fn.Blocks {
			iff, ok := b.Instrs[len(b.Instrs)-1].(*ssa.If)
			if !ok {
				continue
			}
			bo, ok := iff.Cond.(*ssa.BinOp)
			if !ok || (bo.Op != token.EQL && bo.Op != token.NEQ) {
				continue
			}
			var lc *ssa.Call
			var cv int64
			if c, ok := constInt(bo.Y); ok {
				lc, _ = bo.X.(*ssa.Call)
				cv = c
			} else if c, ok := constInt(bo.X); ok {
				lc, _ = bo.Y.(*ssa.Call)
				cv = c
			}
			if lc == nil || !isBuiltinCall(lc, "len") {
				continue
			}
			if !ipDerived(lc.Call.Args[0], ipF, 0) {
				continue
			}
			key, _ := k.condKey(iff.Cond)
			lenConst[key] = cv
		}
		q := &PathQuery{P: p, Fn: fn, K: k}
		reported := false
		n := 0
		q.Step = func(in ssa.Instruction, deferred bool, st uint64, c *PathCtx) (uint64, bool) {
			if call, ok := in.(*ssa.Call); ok && callsFn(call, addFn) {
				n++
				ok16or4 := false
				for key, cv := range lenConst {
					if v, known := c.Known(key); known && v && (cv == 16 || cv == 4) {
						ok16or4 = true
					}
				}
				if !ok16or4 && !reported {
					reported = true
					rc.ViolationPath(fn, instrPos(call), "Add without IP length guard", "a path reaches Add although the IP is neither 4 nor 16 bytes long: a malformed address attribute is emitted instead of ErrBadIPLength", c.Witness(fn, call))
				}
				return st, true
			}
			return st, false
		}
		q.Run()
		rc.Instance(fnName(fn), true, map[string]interface{}{"fn": fnName(fn), "length_tests": len(lenConst), "paths_to_Add": n})
		if n == 0 {
			rc.Violation(fn, fn.Pos(), "no Add call", "the address setter never adds its attribute")
		}
	}
}

func ipDerived(v ssa.Value, ipF *types.Var, depth int) bool {
	if depth > 6 || v == nil {
		return false
	}
	switch x := v.(type) {
	case *ssa.UnOp:
		if x.Op == token.MUL {
			if _, f := addrField(x.X); f == ipF {
				return true
			}
			if d := deref(x); d != ssa.Value(x) {
				return ipDerived(d, ipF, depth+1)
			}
		}
	case *ssa.Field:
		if st, ok := x.X.Type().Underlying().(*types.Struct); ok && st.Field(x.Field) == ipF {
			return true
		}
	case *ssa.Phi:
		for _, e := range x.Edges {
			if ipDerived(e, ipF, depth+1) {
				return true
			}
		}
	case *ssa.Slice:
		return ipDerived(x.X, ipF, depth+1)
	case *ssa.ChangeType:
		return ipDerived(x.X, ipF, depth+1)
	}
	return false
}

func checkReason(r *Run, rc *RuleCtx) {
	p := r.P
	fn := p.Meth("ErrorCode", "AddTo")
	if fn == nil {
		rc.Fail("ErrorCode.AddTo", "not found")
		return
	}
	r.Analysed(fn)
	var lk *ssa.Lookup
	eachInstr(fn, func(b *ssa.BasicBlock, i int, in ssa.Instruction) {
		if l, ok := in.(*ssa.Lookup); ok {
			if isMapType(l.X.Type()) {
				lk = l
			}
		}
	})
	if lk == nil {
		rc.Violation(fn, fn.Pos(), "reason lookup", "no lookup of a default reason found")
		return
	}
	cis := ifsOn(fn, func(v ssa.Value) bool {
		b, ok := v.(*ssa.BinOp)
		if !ok || (b.Op != token.EQL && b.Op != token.NEQ) {
			return false
		}
		x, y := b.X, b.Y
		if e, ok := x.(*ssa.Extract); ok && e.Tuple == ssa.Value(lk) {
			return isNilConst(y) || true
		}
		return (x == ssa.Value(lk) && isNilConst(y)) || (y == ssa.Value(lk) && isNilConst(x))
	})
	rc.Instance(fnName(fn), true, map[string]interface{}{"fn": fnName(fn), "nil_tests_of_reason": len(cis)})
	if len(cis) == 0 {
		// comma-ok form
		cis = ifsOn(fn, func(v ssa.Value) bool {
			e, ok := v.(*ssa.Extract)
			return ok && e.Tuple == ssa.Value(lk) && e.Index == 1
		})
		if len(cis) == 0 {
			rc.Violation(fn, instrPos(lk), "missing default-reason test", "a code without default reason is added with an empty reason instead of returning ErrNoDefaultReason")
			return
		}
		// ok == false edge must return error
		ci := cis[0]
		checkEdgeReturnsError(r, rc, fn, ci.OnFalse, ci.OnTrue)
		return
	}
	ci := cis[0]
	b := ci.Val.(*ssa.BinOp)
	nilEdge, okEdge := ci.OnTrue, ci.OnFalse
	if b.Op == token.NEQ {
		nilEdge, okEdge = ci.OnFalse, ci.OnTrue
	}
	checkEdgeReturnsError(r, rc, fn, nilEdge, okEdge)
}

// checkEdgeReturnsError: all returns reachable only through badEdge return a non-nil error and no call to a mutator precedes them.
func checkEdgeReturnsError(r *Run, rc *RuleCtx, fn *ssa.Function, badEdge, okEdge *ssa.BasicBlock) {
	p := r.P
	idx := errorResultIndex(fn)
	if len(badEdge.Preds) != 1 {
		rc.Violation(fn, instrPos(badEdge.Instrs[0]), "reject edge", "the rejecting edge joins other paths: undecided")
		return
	}
	ok, n, bad := allPathsReject(p, fn, badEdge)
	switch {
	case n == 0:
		rc.Violation(fn, instrPos(badEdge.Instrs[0]), "reject edge", "the edge that must reject does not return")
	case bad != nil:
		rc.Violation(fn, instrPos(bad), "reject edge falls through", "the edge that must reject reaches a return that may report success (it continues with the normal path, or does not return a non-nil error)")
	case !ok:
		rc.Violation(fn, instrPos(badEdge.Instrs[0]), "reject edge", "undecided (path exploration exhausted)")
	}
	_ = idx
	_ = okEdge
}

func checkFPGuard(r *Run, rc *RuleCtx, mi *mutInfo) {
	p := r.P
	fn := p.Meth("MessageIntegrity", "AddTo")
	if fn == nil {
		rc.Fail("MessageIntegrity.AddTo", "not found")
		return
	}
	r.Analysed(fn)
	attrsF := FieldVar(p.Named("Message"), "Attributes")
	fpConst := int64(0x8028)
	// form 1: Contains(AttrFingerprint)
	contains := p.Meth("Message", "Contains")
	var guardIf *condIf
	eachInstr(fn, func(b *ssa.BasicBlock, i int, in ssa.Instruction) {
		c, ok := in.(*ssa.Call)
		if !ok || contains == nil || !callsFn(c, contains) || len(c.Call.Args) != 2 {
			return
		}
		if t, ok := constInt(c.Call.Args[1]); ok && t == fpConst {
			cis := ifsOn(fn, func(v ssa.Value) bool { return v == ssa.Value(c) })
			if len(cis) > 0 {
				guardIf = &cis[0]
			}
		}
	})
	var guardBlock *ssa.BasicBlock // block from which the error return is taken
	if guardIf != nil {
		guardBlock = guardIf.If.Block()
		checkEdgeReturnsError(r, rc, fn, guardIf.OnTrue, guardIf.OnFalse)
		rc.Instance(fnName(fn)+"|contains", true, map[string]string{"fn": fnName(fn), "guard": "Contains(AttrFingerprint)"})
	} else {
		// form 2: full range loop over msg.Attributes comparing Type with 0x8028
		loops := loopsOf(fn)
		found := false
		for _, lp := range loops {
			var cmpIf *condIf
			for _, ci := range ifsOn(fn, func(v ssa.Value) bool {
				b, ok := v.(*ssa.BinOp)
				if !ok || (b.Op != token.EQL && b.Op != token.NEQ) {
					return false
				}
				c, ok := constInt(b.Y)
				if !ok {
					c, ok = constInt(b.X)
				}
				return ok && c == fpConst
			}) {
				if lp.Body[ci.If.Block()] {
					c := ci
					cmpIf = &c
				}
			}
			if cmpIf == nil {
				continue
			}
			found = true
			rc.Instance(fnName(fn)+"|scan", true, map[string]string{"fn": fnName(fn), "guard": "range over Attributes comparing Type with FINGERPRINT"})
			// the loop ranges over the whole attribute list
			full := false
			eachInstr(fn, func(b *ssa.BasicBlock, i int, in ssa.Instruction) {
				if ia, ok := in.(*ssa.IndexAddr); ok && lp.Body[b] {
					if _, f := loadedField(ia.X); f == attrsF && fullRangeLoopAllowingReturnExit(lp, ia.X, ia, fn) {
						full = true
					}
				}
			})
			if !full {
				rc.Violation(fn, instrPos(cmpIf.If), "partial FINGERPRINT scan", "the scan for FINGERPRINT does not cover the whole attribute list: integrity is added after a FINGERPRINT that is not where the scan looks")
			}
			b := cmpIf.Val.(*ssa.BinOp)
			eqEdge, neEdge := cmpIf.OnTrue, cmpIf.OnFalse
			if b.Op == token.NEQ {
				eqEdge, neEdge = cmpIf.OnFalse, cmpIf.OnTrue
			}
			checkEdgeReturnsError(r, rc, fn, eqEdge, neEdge)
			guardBlock = lp.Header
		}
		if !found {
			// form 3: a flag loop - `found := false; for i := 0; i < len(attrs) && !found; i++ { found = attrs[i].Type == FINGERPRINT }`
			// followed by `if found { return error }`
			for _, lp := range loops {
				idx, start, bound, isIdx := indexLoopInfo(lp)
				if !isIdx || start != 0 {
					continue
				}
				ln, isLen := bound.(*ssa.Call)
				if !isLen || !isBuiltinCall(ln, "len") {
					continue
				}
				if _, f := loadedField(ln.Call.Args[0]); f != attrsF {
					continue
				}
				// the flag: a boolean phi at the header, false on entry, the comparison on the back edge
				var flag *ssa.Phi
				for _, in := range lp.Header.Instrs {
					ph, isPhi := in.(*ssa.Phi)
					if !isPhi {
						break
					}
					if b, isB := ph.Type().Underlying().(*types.Basic); !isB || b.Kind() != types.Bool {
						continue
					}
					okFlag := len(ph.Edges) > 0
					for k, e := range ph.Edges {
						if !lp.Body[lp.Header.Preds[k]] {
							if c, isC := e.(*ssa.Const); !isC || c.Value == nil || c.Value.String() != "false" {
								okFlag = false
							}
							continue
						}
						cmp, isCmp := e.(*ssa.BinOp)
						if !isCmp || cmp.Op != token.EQL {
							okFlag = false
							continue
						}
						cv, isC := constInt(cmp.Y)
						x := cmp.X
						if !isC {
							cv, isC = constInt(cmp.X)
							x = cmp.Y
						}
						if !isC || cv != fpConst {
							okFlag = false
							continue
						}
						// the compared value is attrs[idx].Type
						ld, isLd := stripConvs(x).(*ssa.UnOp)
						if !isLd || ld.Op != token.MUL {
							okFlag = false
							continue
						}
						fa, isFA := ld.X.(*ssa.FieldAddr)
						if !isFA || fieldOfAddr(fa) == nil || fieldOfAddr(fa).Name() != "Type" {
							okFlag = false
							continue
						}
						ia, isIA := fa.X.(*ssa.IndexAddr)
						if !isIA || ia.Index != idx {
							okFlag = false
							continue
						}
						if _, f := loadedField(ia.X); f != attrsF {
							okFlag = false
						}
					}
					if okFlag {
						flag = ph
					}
				}
				if flag == nil {
					continue
				}
				isFlag := func(v ssa.Value) bool {
					for {
						u, isU := v.(*ssa.UnOp)
						if !isU || u.Op != token.NOT {
							break
						}
						v = u.X
					}
					return v == ssa.Value(flag)
				}
				// the loop is left only at the end of the list or with the flag set
				okExits := true
				for _, ex := range lp.Exits() {
					if ex[0] == lp.Header {
						continue
					}
					iff, isIf := ex[0].Instrs[len(ex[0].Instrs)-1].(*ssa.If)
					if !isIf || !isFlag(iff.Cond) {
						okExits = false
					}
				}
				if !okExits {
					continue
				}
				// the test of the flag behind the loop
				for _, ci := range ifsOn(fn, isFlag) {
					if lp.Body[ci.If.Block()] {
						continue
					}
					onSet, onClear := ci.OnTrue, ci.OnFalse
					neg := false
					for v := ci.If.Cond; ; {
						u, isU := v.(*ssa.UnOp)
						if !isU || u.Op != token.NOT {
							break
						}
						neg = !neg
						v = u.X
					}
					if neg {
						onSet, onClear = onClear, onSet
					}
					found = true
					rc.Instance(fnName(fn)+"|scan", true, map[string]string{"fn": fnName(fn), "guard": "flag loop over Attributes comparing Type with FINGERPRINT, flag tested behind the loop"})
					checkEdgeReturnsError(r, rc, fn, onSet, onClear)
					guardBlock = ci.If.Block()
					break
				}
				if found {
					break
				}
			}
		}
		if !found {
			rc.Violation(fn, fn.Pos(), "missing FINGERPRINT guard", "MessageIntegrity.AddTo does not refuse a message that already carries FINGERPRINT")
			return
		}
	}
	// the guard precedes every mutation
	eachInstr(fn, func(b *ssa.BasicBlock, i int, in ssa.Instruction) {
		mut := mi.direct(in)
		if sc := staticCallee(in); sc != nil && p.isLibFn(sc) && mi.mutator(sc) {
			mut = true
		}
		if mut && guardBlock != nil && !blockDominates(guardBlock, b) {
			rc.Violation(fn, instrPos(in), "mutation before the FINGERPRINT guard", "the message is changed before the FINGERPRINT test")
		}
	})
}

// fullRangeLoopAllowingReturnExit: like fullRangeLoop but exits that lead straight to a return are allowed.
func fullRangeLoopAllowingReturnExit(lp *Loop, S ssa.Value, ia *ssa.IndexAddr, fn *ssa.Function) bool {
	idx, start, bound, isIdx := indexLoopInfo(lp)
	if !isIdx || start != 0 {
		return false
	}
	ln, ok := bound.(*ssa.Call)
	if !ok || !isBuiltinCall(ln, "len") {
		return false
	}
	k := newKeyer()
	k.pureFieldLoads = true
	if k.Key(ln.Call.Args[0]) != k.Key(S) {
		return false
	}
	if ia.Index != idx {
		return false
	}
	for _, ex := range lp.Exits() {
		if ex[0] == lp.Header {
			continue
		}
		// other exits must end in a return without re-entering (directly, or through the merged
		// result of a normalised helper: every path from the exit rejects)
		if _, isRet := ex[1].Instrs[len(ex[1].Instrs)-1].(*ssa.Return); !isRet {
			if ok, _, _ := allPathsReject(callerProg, fn, ex[1]); !ok {
				return false
			}
		}
	}
	return true
}

func checkBuild(r *Run, rc *RuleCtx) {
	p := r.P
	fn := p.Meth("Message", "Build")
	if fn == nil {
		rc.Fail("(*Message).Build", "not found")
		return
	}
	r.Analysed(fn)
	reset, wh := p.Meth("Message", "Reset"), p.Meth("Message", "WriteHeader")
	var resetC, whC ssa.Instruction
	var adds []*ssa.Call
	eachInstr(fn, func(b *ssa.BasicBlock, i int, in ssa.Instruction) {
		if callsFn(in, reset) && resetC == nil {
			resetC = in
		}
		if callsFn(in, wh) && whC == nil {
			whC = in
		}
		if c, ok := in.(*ssa.Call); ok && c.Call.IsInvoke() && c.Call.Method.Name() == "AddTo" {
			adds = append(adds, c)
		}
	})
	rc.Instance(fnName(fn), true, map[string]interface{}{"fn": fnName(fn), "setter_calls": len(adds)})
	if resetC == nil || whC == nil || !instrDominates(resetC, whC) {
		rc.Violation(fn, fn.Pos(), "Reset; WriteHeader prefix", "Build must reset the message and write the header before applying setters")
	}
	if len(adds) == 0 {
		rc.Violation(fn, fn.Pos(), "no setter call", "Build does not apply its setters")
		return
	}
	for _, ad := range adds {
		if whC != nil && !instrDominates(whC, ad) {
			rc.Violation(fn, instrPos(ad), "setter before header", "a setter runs before the header is written")
		}
		// setters applied in argument order: the call is in a full range loop over the parameter slice
		loops := loopsOf(fn)
		lp := inLoop(loops, ad.Block())
		if lp == nil || !rangeIndexLoop(lp) {
			rc.Violation(fn, instrPos(ad), "setter order", "setters are not applied by an ascending range over the argument list")
		}
		q := &PathQuery{P: p, Fn: fn, From: ad}
		rep := false
		const tested, failed = 1, 2
		upd := func(st uint64, c *PathCtx) uint64 {
			switch c.NilState(ad) {
			case -1:
				st |= tested | failed
			case +1:
				st |= tested
			}
			return st
		}
		q.AtBlock = func(b *ssa.BasicBlock, st uint64, c *PathCtx) uint64 { return upd(st, c) }
		q.Step = func(in ssa.Instruction, deferred bool, st uint64, c *PathCtx) (uint64, bool) {
			st = upd(st, c)
			if c2, ok := in.(*ssa.Call); ok && c2.Call.IsInvoke() && c2.Call.Method.Name() == "AddTo" {
				if st&tested == 0 && !rep {
					rep = true
					rc.ViolationPath(fn, instrPos(c2), "setter error ignored", "the next setter runs although the previous setter's error was never examined", c.Witness(fn, c2))
				}
				if st&failed != 0 && !rep {
					rep = true
					rc.ViolationPath(fn, instrPos(c2), "continues after a failing setter", "Build must stop at the first failing setter", c.Witness(fn, c2))
				}
				return st, true
			}
			return st, false
		}
		idx := errorResultIndex(fn)
		q.AtReturn = func(ret *ssa.Return, st uint64, c *PathCtx) {
			st = upd(st, c)
			v := c.Resolve(deref(ret.Results[idx]))
			if st&failed != 0 {
				if v != ssa.Value(ad) && !rep {
					rep = true
					rc.ViolationPath(fn, instrPos(ret), "error replaced", "Build must return the failing setter's error unchanged", c.Witness(fn, ret))
				}
				return
			}
			if st&tested == 0 {
				if v != ssa.Value(ad) && !rep {
					rep = true
					rc.ViolationPath(fn, instrPos(ret), "setter error ignored", "Build returns without having examined the last setter's error", c.Witness(fn, ret))
				}
				return
			}
			if c.NilState(v) == -1 && !rep {
				rep = true
				rc.ViolationPath(fn, instrPos(ret), "error without failing setter", "Build fails although every setter succeeded", c.Witness(fn, ret))
			}
		}
		q.Run()
	}
	_ = sort.Strings
}
