package main

import (
	"go/types"
	"sort"

	"golang.org/x/tools/go/ssa"
)

// Closures D (decode), G (getters/checkers), S (setters) of DESIGN.md section 4.

type closures struct {
	p        *Prog
	Message  *types.Named
	DecodeM  *ssa.Function // (*Message).Decode
	DEntries []*ssa.Function
	D        []*ssa.Function
	GEntries []*ssa.Function
	G        []*ssa.Function
	SEntries []*ssa.Function
	S        []*ssa.Function
	Getters  []*ssa.Function // GetFrom / GetFromAs methods
	Checkers []*ssa.Function // Check methods of Checker implementers
	Setters  []*ssa.Function // AddTo / AddToAs methods
	missing  []string
}

func ifaceOf(p *Prog, name string) *types.Interface {
	n := p.Named(name)
	if n == nil {
		return nil
	}
	i, _ := n.Underlying().(*types.Interface)
	return i
}

func (p *Prog) buildClosures() *closures {
	c := &closures{p: p, Message: p.Named("Message")}
	need := func(f *ssa.Function, name string) *ssa.Function {
		if f == nil {
			c.missing = append(c.missing, name)
		}
		return f
	}
	c.DecodeM = need(p.Meth("Message", "Decode"), "(*Message).Decode")
	for _, n := range []string{"Decode", "Write", "UnmarshalBinary", "GobDecode", "ReadFrom", "CloneTo"} {
		if f := need(p.Meth("Message", n), "(*Message)."+n); f != nil {
			c.DEntries = append(c.DEntries, f)
		}
	}
	for _, n := range []string{"IsMessage", "Decode"} {
		if f := need(p.Fn(n), n); f != nil {
			c.DEntries = append(c.DEntries, f)
		}
	}
	lib := func(f *ssa.Function) bool { return p.isLibFn(f) }
	cg := p.CG()
	c.D = cg.Closure(c.DEntries, lib)

	methodsNamed := func(t types.Type, names ...string) []*ssa.Function {
		var out []*ssa.Function
		nt := t
		if pt, ok := t.(*types.Pointer); ok {
			nt = pt.Elem()
		}
		n, ok := nt.(*types.Named)
		if !ok {
			return nil
		}
		for _, nm := range names {
			if f := p.MethodOf(n, nm); f != nil && f.Blocks != nil {
				out = append(out, f)
			}
		}
		return out
	}
	if gi := ifaceOf(p, "Getter"); gi != nil {
		for _, t := range p.Implementers(gi) {
			c.Getters = append(c.Getters, methodsNamed(t, "GetFrom", "GetFromAs")...)
		}
	} else {
		c.missing = append(c.missing, "interface Getter")
	}
	// GetFromAs on helper types that are not Getters themselves (TextAttribute)
	for _, tn := range []string{"TextAttribute"} {
		if n := p.Named(tn); n != nil {
			c.Getters = append(c.Getters, methodsNamed(n, "GetFromAs")...)
		}
	}
	if ci := ifaceOf(p, "Checker"); ci != nil {
		for _, t := range p.Implementers(ci) {
			c.Checkers = append(c.Checkers, methodsNamed(t, "Check")...)
		}
	} else {
		c.missing = append(c.missing, "interface Checker")
	}
	if si := ifaceOf(p, "Setter"); si != nil {
		for _, t := range p.Implementers(si) {
			if p.isLibPkg(namedOf(t).Obj().Pkg()) {
				c.Setters = append(c.Setters, methodsNamed(t, "AddTo", "AddToAs")...)
			}
		}
	} else {
		c.missing = append(c.missing, "interface Setter")
	}
	for _, tn := range []string{"TextAttribute"} {
		if n := p.Named(tn); n != nil {
			c.Setters = append(c.Setters, methodsNamed(n, "AddToAs")...)
		}
	}
	c.Getters = dedupFns(c.Getters)
	c.Checkers = dedupFns(c.Checkers)
	c.Setters = dedupFns(c.Setters)
	c.GEntries = append(c.GEntries, c.Getters...)
	c.GEntries = append(c.GEntries, c.Checkers...)
	for _, n := range []string{"Get", "Contains", "ForEach", "Parse", "Check"} {
		if f := need(p.Meth("Message", n), "(*Message)."+n); f != nil {
			c.GEntries = append(c.GEntries, f)
		}
	}
	if f := need(p.Meth("Attributes", "Get"), "Attributes.Get"); f != nil {
		c.GEntries = append(c.GEntries, f)
	}
	c.G = cg.Closure(c.GEntries, lib)

	c.SEntries = append(c.SEntries, c.Setters...)
	for _, n := range []string{"Add", "Build", "Reset", "Encode", "WriteHeader", "WriteLength", "WriteType", "WriteTransactionID", "WriteAttributes", "SetType", "NewTransactionID", "grow"} {
		if f := need(p.Meth("Message", n), "(*Message)."+n); f != nil {
			c.SEntries = append(c.SEntries, f)
		}
	}
	c.S = cg.Closure(c.SEntries, lib)
	return c
}

func namedOf(t types.Type) *types.Named {
	if pt, ok := t.(*types.Pointer); ok {
		t = pt.Elem()
	}
	n, _ := t.(*types.Named)
	return n
}

func dedupFns(fs []*ssa.Function) []*ssa.Function {
	seen := map[*ssa.Function]bool{}
	var out []*ssa.Function
	for _, f := range fs {
		if f != nil && !seen[f] {
			seen[f] = true
			out = append(out, f)
		}
	}
	sort.SliceStable(out, func(i, j int) bool { return fnName(out[i]) < fnName(out[j]) })
	return out
}

func fnIn(f *ssa.Function, set []*ssa.Function) bool {
	for _, g := range set {
		if g == f {
			return true
		}
	}
	return false
}
