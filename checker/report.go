package main

import (
	"bufio"
	"encoding/json"
	"fmt"
	"go/token"
	"os"
	"path/filepath"
	"sort"
	"strings"

	"golang.org/x/tools/go/ssa"
)

// Finding is one reported construct.
type Finding struct {
	Prop      string `json:"property"`
	Rule      string `json:"rule"`
	Config    string `json:"config"`
	Func      string `json:"function"`
	Pos       string `json:"pos"`
	Construct string `json:"construct"`
	Msg       string `json:"message"`
	Path      string `json:"path,omitempty"` // for path rules: entry -> offending exit
}

// Site is the line-independent identity used for known-finding matching.
func (f Finding) Site() string { return f.Func + ":" + f.Construct }

// RuleResult reports what one rule covered in one configuration.
type RuleResult struct {
	ID          string        `json:"id"`
	Desc        string        `json:"rule"`
	Instances   int           `json:"instances"`
	Floor       int           `json:"floor"`
	NonTrivial  int           `json:"nontrivial"`
	Obligations int           `json:"obligations,omitempty"`
	Discharged  int           `json:"discharged,omitempty"`
	Justified   int           `json:"justified,omitempty"`
	Violations  int           `json:"violations"`
	Samples     []interface{} `json:"samples,omitempty"`
	keys        map[string]bool
}

// PropResult is what one worker (one configuration) found for one property.
type PropResult struct {
	Prop        string                 `json:"property"`
	Config      string                 `json:"config"`
	Rules       []RuleResult           `json:"rules"`
	Findings    []Finding              `json:"findings"`
	Funcs       []string               `json:"functions_analysed"`
	Assumptions []string               `json:"assumptions"`
	NotDecided  []string               `json:"not_decided"`
	Explanation string                 `json:"explanation"`
	Extra       map[string]interface{} `json:"extra,omitempty"`
}

// Run is the context handed to property checkers.
type Run struct {
	P    *Prog
	Prop string
	Tier string
	Res  *PropResult
	fset map[string]bool
}

func newRun(p *Prog, prop, tier string) *Run {
	r := &Run{P: p, Prop: prop, Tier: tier, Res: &PropResult{Prop: prop, Config: p.Cfg.String()}, fset: map[string]bool{}}
	if p.InlineInfo != nil {
		b, _ := json.Marshal(p.InlineInfo)
		r.Assume("helper normalisation (inline.go): the program was analysed with new unexported helpers inlined at their call sites: " + string(b))
	}
	return r
}

// Analysed records that a function was analysed.
func (r *Run) Analysed(fs ...*ssa.Function) {
	for _, f := range fs {
		if f == nil {
			continue
		}
		n := fnName(f)
		if !r.fset[n] {
			r.fset[n] = true
			r.Res.Funcs = append(r.Res.Funcs, n)
		}
	}
}

func (r *Run) Assume(s ...string) {
	for _, a := range s {
		dup := false
		for _, b := range r.Res.Assumptions {
			if a == b {
				dup = true
			}
		}
		if !dup {
			r.Res.Assumptions = append(r.Res.Assumptions, a)
		}
	}
}

func (r *Run) NotDecided(s ...string) { r.Res.NotDecided = append(r.Res.NotDecided, s...) }

// RuleCtx accumulates one rule.
type RuleCtx struct {
	r  *Run
	rr RuleResult
}

func (r *Run) Rule(id, desc string, floor int) *RuleCtx {
	return &RuleCtx{r: r, rr: RuleResult{ID: id, Desc: desc, Floor: floor, keys: map[string]bool{}}}
}

// Instance records one checked instance (obligation, path-rule instance, table row).
// key makes instances distinct; nontrivial says whether deciding it needed a guard/summary/path fact.
func (c *RuleCtx) Instance(key string, nontrivial bool, sample interface{}) {
	c.rr.Instances++
	if !c.rr.keys[key] {
		c.rr.keys[key] = true
		if nontrivial {
			c.rr.NonTrivial++
		}
	}
	if sample != nil && len(c.rr.Samples) < 4 {
		c.rr.Samples = append(c.rr.Samples, sample)
	}
}

func (c *RuleCtx) Obligation(discharged, justified bool) {
	c.rr.Obligations++
	if discharged {
		c.rr.Discharged++
	}
	if justified {
		c.rr.Justified++
	}
}

// Violation reports a construct.
func (c *RuleCtx) Violation(fn *ssa.Function, pos token.Pos, construct, msg string) {
	c.ViolationPath(fn, pos, construct, msg, "")
}

func (c *RuleCtx) ViolationPath(fn *ssa.Function, pos token.Pos, construct, msg, path string) {
	c.rr.Violations++
	f := Finding{Prop: c.r.Prop, Rule: c.rr.ID, Config: c.r.P.Cfg.String(), Func: fnName(fn),
		Pos: c.r.P.pos(pos), Construct: construct, Msg: msg, Path: path}
	if fn == nil {
		f.Func = "-"
	}
	c.r.Res.Findings = append(c.r.Res.Findings, f)
}

// Fail reports a failure not tied to a function (unresolved anchor, undecided table...).
func (c *RuleCtx) Fail(construct, msg string) {
	c.Violation(nil, token.NoPos, construct, msg)
}

// Done closes the rule: vacuity guard.
func (c *RuleCtx) Done() {
	if c.rr.Instances < c.rr.Floor {
		c.Fail("vacuity", fmt.Sprintf("rule matched %d < %d instances confirmed on the reference tree (anchor moved or construct no longer recognised: cannot show the property holds)", c.rr.Instances, c.rr.Floor))
	}
	c.r.Res.Rules = append(c.r.Res.Rules, c.rr)
}

// ---------------------------------------------------------------------------
// known findings

type knownFinding struct {
	Prop, Rule, Site, Text string
}

func loadKnown(verifDir string) ([]knownFinding, error) {
	f, err := os.Open(filepath.Join(verifDir, "known_findings.txt"))
	if err != nil {
		if os.IsNotExist(err) {
			return nil, nil
		}
		return nil, err
	}
	defer f.Close()
	var out []knownFinding
	sc := bufio.NewScanner(f)
	for sc.Scan() {
		line := strings.TrimSpace(sc.Text())
		if !strings.HasPrefix(line, "finding:") {
			continue // comments and "fixed:" entries suppress nothing
		}
		rest := strings.TrimSpace(strings.TrimPrefix(line, "finding:"))
		text := ""
		if i := strings.Index(rest, "::"); i >= 0 {
			text = strings.TrimSpace(rest[i+2:])
			rest = strings.TrimSpace(rest[:i])
		}
		k := knownFinding{Text: text}
		// site may contain spaces: parse property= and rule= then site= to end
		if i := strings.Index(rest, " site="); i >= 0 {
			k.Site = strings.TrimSpace(rest[i+6:])
			rest = rest[:i]
		}
		for _, fld := range strings.Fields(rest) {
			if strings.HasPrefix(fld, "property=") {
				k.Prop = fld[9:]
			}
			if strings.HasPrefix(fld, "rule=") {
				k.Rule = fld[5:]
			}
		}
		if k.Prop != "" && k.Rule != "" && k.Site != "" {
			out = append(out, k)
		}
	}
	return out, sc.Err()
}

func matchKnown(ks []knownFinding, f Finding) *knownFinding {
	for i := range ks {
		if ks[i].Prop == f.Prop && ks[i].Rule == f.Rule && ks[i].Site == f.Site() {
			return &ks[i]
		}
	}
	return nil
}

// ---------------------------------------------------------------------------
// evidence

type propMeta struct {
	Level   string
	Trusted []string
}

func writeEvidence(verifDir, prop, tier string, level string, seed int, wall float64, results []*PropResult, violations int, known int, extra map[string]interface{}) error {
	cov := map[string]interface{}{}
	var configs []string
	funcs := map[string]bool{}
	var rules []interface{}
	evals, nontriv, obl, dis, just := 0, 0, 0, 0, 0
	var samples []interface{}
	assume := map[string]bool{}
	var notDecided []string
	expl := ""
	for _, pr := range results {
		configs = append(configs, pr.Config)
		for _, f := range pr.Funcs {
			funcs[f] = true
		}
		for _, a := range pr.Assumptions {
			assume[a] = true
		}
		if expl == "" {
			expl = pr.Explanation
			notDecided = pr.NotDecided
		}
		for _, rr := range pr.Rules {
			m := map[string]interface{}{"id": rr.ID, "config": pr.Config, "rule": rr.Desc, "instances": rr.Instances, "floor": rr.Floor, "violations": rr.Violations}
			if rr.Obligations > 0 {
				m["obligations"] = rr.Obligations
				m["discharged"] = rr.Discharged
				m["justified"] = rr.Justified
			}
			rules = append(rules, m)
			evals += rr.Instances
			nontriv += rr.NonTrivial
			obl += rr.Obligations
			dis += rr.Discharged
			just += rr.Justified
			for _, s := range rr.Samples {
				if len(samples) < 12 {
					samples = append(samples, map[string]interface{}{"rule": rr.ID, "config": pr.Config, "case": s})
				}
			}
		}
	}
	var fl []string
	for f := range funcs {
		fl = append(fl, f)
	}
	sort.Strings(fl)
	var al []string
	for a := range assume {
		al = append(al, a)
	}
	sort.Strings(al)
	if expl == "" {
		expl = "static rules for " + prop
	}
	cov["explanation"] = expl
	cov["configs"] = configs
	cov["functions_analysed"] = len(fl)
	cov["functions"] = fl
	cov["rules"] = rules
	cov["evaluations"] = evals
	cov["distinct_nontrivial"] = nontriv
	cov["rule"] = "one evaluation = one obligation, path-rule instance, table row or bit obligation decided from /repo's current source in one build configuration; distinct = distinct (rule, function, construct) key within a configuration; non-trivial = deciding it needed at least one guard, summary, lockset or path fact (constant-only instances are trivial)"
	if len(samples) == 0 {
		samples = append(samples, "no instance samples recorded")
	}
	cov["samples"] = samples
	cov["not_decided"] = notDecided
	cov["known_findings_matched"] = known
	if obl > 0 || level == "proof" {
		cov["obligations"] = obl
		cov["discharged"] = dis
		cov["justified_by_table"] = just
	}
	if level == "proof" {
		cov["checker_cmd"] = "./bin/stunlint -prop " + prop + " -tier " + tier
		cov["trusted_base"] = []string{"go/types and go/ssa (golang.org/x/tools v0.29.0) construction of the SSA form", "the bit-provenance transfer functions in checker/bits.go", "Go spec semantics of &, |, ^, <<, >>, + on uint16"}
		cov["exhaustive"] = true
	}
	for k, v := range extra {
		cov[k] = v
	}
	ev := map[string]interface{}{
		"property_id": prop,
		"tier":        tier,
		"seed":        seed,
		"level":       level,
		"coverage":    cov,
		"assumptions": al,
		"wall_s":      wall,
		"violations":  violations,
	}
	if al == nil {
		ev["assumptions"] = []string{}
	}
	b, err := json.MarshalIndent(ev, "", " ")
	if err != nil {
		return err
	}
	dir := filepath.Join(verifDir, "evidence")
	if err := os.MkdirAll(dir, 0o755); err != nil {
		return err
	}
	return os.WriteFile(filepath.Join(dir, prop+".json"), append(b, '\n'), 0o644)
}

// Borrow runs another property's rules on the same program and adopts some of them under new
// names: a property that rests on a mechanism another property already decides (the client on the
// agent's Close, the retransmission schedule on the agent's deadline test, ...) claims that premise
// itself, so that a change breaking it is reported under every property it breaks.
var borrowCache = map[string]*PropResult{}

var borrowInProgress = map[string]bool{}

func (r *Run) Borrow(fromProp string, rules map[string]string) {
	key := r.P.Cfg.String() + "|" + fromProp
	src, ok := borrowCache[key]
	if !ok {
		def, found := registry[fromProp]
		if !found {
			rc := r.Rule(r.Prop+".borrow", "borrowed rules resolve", 1)
			rc.Fail(fromProp, "property to borrow from is not built")
			rc.Done()
			return
		}
		if borrowInProgress[key] {
			// a cycle of borrowing (A shares a rule of B, B one of A): the inner run does not need the
			// outer property's rules to produce its own
			return
		}
		borrowInProgress[key] = true
		sub := newRun(r.P, fromProp, r.Tier)
		def.Run(sub)
		delete(borrowInProgress, key)
		src = sub.Res
		borrowCache[key] = src
	}
	for _, rr := range src.Rules {
		nid, want := rules[rr.ID]
		if !want {
			continue
		}
		cp := rr
		cp.ID = nid
		cp.Desc = rr.Desc + " (shared with " + rr.ID + ")"
		r.Res.Rules = append(r.Res.Rules, cp)
	}
	for _, f := range src.Findings {
		nid, want := rules[f.Rule]
		if !want {
			continue
		}
		f.Prop = r.Prop
		f.Rule = nid
		r.Res.Findings = append(r.Res.Findings, f)
	}
	for _, fn := range src.Funcs {
		if !r.fset[fn] {
			r.fset[fn] = true
			r.Res.Funcs = append(r.Res.Funcs, fn)
		}
	}
}
