package main

import (
	"go/token"
	"go/types"

	"golang.org/x/tools/go/ssa"
)

// clientModel resolves the roles of Client and clientTransaction from the code.
type clientModel struct {
	p  *Prog
	T  *types.Named // Client
	TX *types.Named // clientTransaction

	Mux, Closed, Table, Agent, Conn, CloseCh, WG, RTO, MaxAttempts, CloseConn, Handler, Collector, Clock *types.Var
	TxID, TxAttempt, TxCalls, TxH, TxStart, TxRTO, TxRaw                                                 *types.Var

	Start, Do, Indicate, Close, SetRTO, NewClient *ssa.Function
	Callback                                      *ssa.Function // handleAgentCallback: the *Client method taking an Event
	Reg                                           *ssa.Function // c.start: inserts into the table
	Del                                           *ssa.Function // c.delete: removes a key from the table
	Reader                                        *ssa.Function // readUntilClosed: go target in NewClient
	Handle                                        *ssa.Function // (*clientTransaction).handle
	Acquire, Put                                  *ssa.Function
	NextTimeout                                   *ssa.Function
	Waiter                                        *types.Named // callbackWaitHandler
	missing                                       []string
	soft                                          []string // anchors only C11 needs
}

func isNamedIface(t types.Type, pkgPath, name string) bool { return isNamedType(t, pkgPath, name) }

func resolveClient(p *Prog) *clientModel {
	m := &clientModel{p: p, T: p.Named("Client")}
	miss := func(s string) { m.missing = append(m.missing, s) }
	if m.T == nil {
		miss("type Client")
		return m
	}
	st := m.T.Underlying().(*types.Struct)
	// transaction type: element type of the map field
	for i := 0; i < st.NumFields(); i++ {
		if mp, ok := st.Field(i).Type().Underlying().(*types.Map); ok {
			if pt, ok := mp.Elem().(*types.Pointer); ok {
				if n, ok := pt.Elem().(*types.Named); ok {
					m.TX = n
					m.Table = st.Field(i)
				}
			}
		}
	}
	if m.TX == nil {
		miss("Client transaction table (map to *clientTransaction)")
		return m
	}
	m.Mux = RoleField(m.T, "mux", isMutexType)
	m.Closed = RoleField(m.T, "closed", nil)
	m.Agent = RoleField(m.T, "a", func(t types.Type) bool { return isNamedType(t, modulePath, "ClientAgent") })
	m.Conn = RoleField(m.T, "c", func(t types.Type) bool { return isNamedType(t, modulePath, "Connection") })
	m.CloseCh = RoleField(m.T, "close", func(t types.Type) bool { _, ok := t.Underlying().(*types.Chan); return ok })
	m.WG = RoleField(m.T, "wg", func(t types.Type) bool { return isNamedType(t, "sync", "WaitGroup") })
	m.RTO = RoleField(m.T, "rto", nil)
	m.MaxAttempts = RoleField(m.T, "maxAttempts", nil)
	m.CloseConn = RoleField(m.T, "closeConn", nil)
	m.Handler = RoleField(m.T, "handler", func(t types.Type) bool { return isNamedType(t, modulePath, "Handler") })
	m.Collector = RoleField(m.T, "collector", func(t types.Type) bool { return isNamedType(t, modulePath, "Collector") })
	m.Clock = RoleField(m.T, "clock", func(t types.Type) bool { return isNamedType(t, modulePath, "Clock") })
	for n, v := range map[string]*types.Var{"Client.mux": m.Mux, "Client.closed": m.Closed, "Client.a": m.Agent, "Client.c": m.Conn, "Client.close": m.CloseCh, "Client.wg": m.WG,
		"Client.rto": m.RTO, "Client.maxAttempts": m.MaxAttempts, "Client.closeConn": m.CloseConn, "Client.handler": m.Handler, "Client.collector": m.Collector} {
		if v == nil {
			miss(n)
		}
	}
	m.TxID = RoleField(m.TX, "id", nil)
	m.TxAttempt = RoleField(m.TX, "attempt", nil)
	m.TxCalls = RoleField(m.TX, "calls", nil)
	m.TxH = RoleField(m.TX, "h", func(t types.Type) bool { return isNamedType(t, modulePath, "Handler") })
	m.TxStart = RoleField(m.TX, "start", func(t types.Type) bool { return isNamedType(t, "time", "Time") })
	m.TxRTO = RoleField(m.TX, "rto", func(t types.Type) bool { return isNamedType(t, "time", "Duration") })
	m.TxRaw = RoleField(m.TX, "raw", func(t types.Type) bool { _, ok := t.Underlying().(*types.Slice); return ok })
	if m.TxRTO == nil {
		m.soft = append(m.soft, "clientTransaction.rto")
	}
	for n, v := range map[string]*types.Var{"clientTransaction.id": m.TxID, "clientTransaction.attempt": m.TxAttempt, "clientTransaction.calls": m.TxCalls, "clientTransaction.h": m.TxH, "clientTransaction.raw": m.TxRaw} {
		if v == nil {
			miss(n)
		}
	}
	need := func(f *ssa.Function, n string) *ssa.Function {
		if f == nil {
			miss(n)
		}
		return f
	}
	m.Start = need(p.Meth("Client", "Start"), "(*Client).Start")
	m.Do = need(p.Meth("Client", "Do"), "(*Client).Do")
	m.Indicate = need(p.Meth("Client", "Indicate"), "(*Client).Indicate")
	m.Close = need(p.Meth("Client", "Close"), "(*Client).Close")
	m.SetRTO = need(p.Meth("Client", "SetRTO"), "(*Client).SetRTO")
	m.NewClient = need(p.Fn("NewClient"), "NewClient")
	// by role
	for _, f := range p.LibFuncs() {
		if f.Parent() != nil || f.Signature.Recv() == nil || f.Blocks == nil {
			continue
		}
		rt := f.Signature.Recv().Type()
		if pt, ok := rt.(*types.Pointer); ok {
			rt = pt.Elem()
		}
		if rt == types.Type(m.T) {
			if len(f.Params) == 2 && isNamedType(f.Params[1].Type(), modulePath, "Event") {
				m.Callback = f
			}
			if f != m.Start && f != m.Do && len(f.Params) == 2 {
				hasUpdate, hasDelete := false, false
				eachInstr(f, func(b *ssa.BasicBlock, i int, in ssa.Instruction) {
					if _, ok := in.(*ssa.MapUpdate); ok {
						hasUpdate = true
					}
					if isBuiltinCall(in, "delete") {
						hasDelete = true
					}
				})
				if pt, ok := f.Params[1].Type().(*types.Pointer); ok && hasUpdate {
					if pt.Elem() == types.Type(m.TX) {
						m.Reg = f
					}
				}
				if hasDelete && !hasUpdate && f != m.Callback {
					if _, isPtr := f.Params[1].Type().(*types.Pointer); !isPtr {
						m.Del = f
					}
				}
			}
		}
		if rt == types.Type(m.TX) {
			if len(f.Params) == 2 && isNamedType(f.Params[1].Type(), modulePath, "Event") {
				m.Handle = f
			}
			if len(f.Params) >= 2 && isNamedType(f.Params[1].Type(), "time", "Time") && f.Signature.Results().Len() == 1 && isNamedType(f.Signature.Results().At(0).Type(), "time", "Time") {
				m.NextTimeout = f
			}
		}
	}
	need(m.Callback, "agent callback of the client (method taking an Event)")
	need(m.Reg, "client registration function (inserts into the table)")
	need(m.Del, "client delete function")
	need(m.Handle, "(*clientTransaction).handle")
	// reader: the go target in NewClient
	if m.NewClient != nil {
		eachInstr(m.NewClient, func(b *ssa.BasicBlock, i int, in ssa.Instruction) {
			if g, ok := in.(*ssa.Go); ok {
				if sc := g.Call.StaticCallee(); sc != nil {
					m.Reader = sc
				}
			}
		})
	}
	need(m.Reader, "reader goroutine (go statement in NewClient)")
	// pool helpers: functions returning *clientTransaction without params / taking it and calling Pool.Put
	for _, f := range p.LibFuncs() {
		if f.Parent() != nil || f.Signature.Recv() != nil || f.Blocks == nil {
			continue
		}
		if len(f.Params) == 0 && f.Signature.Results().Len() == 1 {
			if pt, ok := f.Signature.Results().At(0).Type().(*types.Pointer); ok && pt.Elem() == types.Type(m.TX) {
				m.Acquire = f
			}
		}
		if len(f.Params) == 1 && f.Signature.Results().Len() == 0 {
			if pt, ok := f.Params[0].Type().(*types.Pointer); ok && pt.Elem() == types.Type(m.TX) {
				m.Put = f
			}
		}
	}
	if m.Put == nil {
		// renamed, or turned into a method of the transaction: found by its role
		m.Put = p.Fn("putClientTransaction")
	}
	if m.Acquire == nil {
		// the acquisition helper may have been inlined by hand: Start then takes the object from the pool itself
		direct := false
		if m.Start != nil {
			eachInstr(m.Start, func(b *ssa.BasicBlock, i int, in ssa.Instruction) {
				if v, ok := in.(ssa.Value); ok && m.isAcquire(v) {
					direct = true
				}
			})
		}
		if !direct {
			miss("acquireClientTransaction (or a sync.Pool Get asserted to *clientTransaction in Start)")
		}
	}
	need(m.Put, "putClientTransaction")
	m.Waiter = p.Named("callbackWaitHandler")
	if m.Waiter == nil {
		miss("callbackWaitHandler")
	}
	return m
}

// ifaceCallOnField: instruction is an interface method call `name` on a value loaded from field fv.
func ifaceCallOnField(in ssa.Instruction, fv *types.Var, name string) bool {
	ci, ok := in.(ssa.CallInstruction)
	if !ok {
		return false
	}
	cc := ci.Common()
	if !cc.IsInvoke() || cc.Method.Name() != name {
		return false
	}
	_, f := loadedField(cc.Value)
	return f == fv && fv != nil
}

// atomicOp: call to sync/atomic function `name` whose first argument is the address of field fv.
func atomicOpOnField(in ssa.Instruction, fv *types.Var) (string, bool) {
	sc := staticCallee(in)
	if sc == nil || sc.Pkg == nil || sc.Pkg.Pkg.Path() != "sync/atomic" {
		return "", false
	}
	args := callArgs(in)
	if len(args) == 0 {
		return "", false
	}
	if _, f := addrField(args[0]); f == fv && fv != nil {
		return sc.Name(), true
	}
	return "", false
}

// valueIsLoadOfField: v is a load of field fv (any base).
func valueIsLoadOfField(v ssa.Value, fv *types.Var) bool {
	_, f := loadedField(v)
	return f == fv && fv != nil
}

func isChanRecv(in ssa.Instruction) bool {
	u, ok := in.(*ssa.UnOp)
	return ok && u.Op == token.ARROW
}

// isAcquire: v is a transaction fresh from the pool - the result of the acquisition helper, or of
// (*sync.Pool).Get asserted to *clientTransaction.
func (m *clientModel) isAcquire(v ssa.Value) bool {
	switch x := v.(type) {
	case *ssa.Call:
		return m.Acquire != nil && callsFn(x, m.Acquire)
	case *ssa.TypeAssert:
		pt, ok := x.AssertedType.(*types.Pointer)
		if !ok || pt.Elem() != types.Type(m.TX) {
			return false
		}
		c, ok := x.X.(*ssa.Call)
		if !ok {
			return false
		}
		sc := c.Call.StaticCallee()
		return sc != nil && sc.Name() == "Get" && sc.Pkg != nil && sc.Pkg.Pkg.Path() == "sync"
	}
	return false
}
