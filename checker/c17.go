package main

import (
	"fmt"
	"go/constant"
	"go/token"
	"go/types"
	"os"
	"sort"
	"strings"

	"golang.org/x/tools/go/ssa"
)

func init() { register("C17", "other", runC17) }

// scheme / proto numbering is read from the code's own exported constants.
type uriConsts struct {
	Scheme map[string]int64 // "stun" -> SchemeTypeSTUN value
	Proto  map[string]int64 // "udp" -> ProtoTypeUDP value
}

func readURIConsts(p *Prog) (*uriConsts, []string) {
	c := &uriConsts{Scheme: map[string]int64{}, Proto: map[string]int64{}}
	var miss []string
	get := func(name string) (int64, bool) {
		o, ok := p.Stun.Pkg.Scope().Lookup(name).(*types.Const)
		if !ok {
			miss = append(miss, name)
			return 0, false
		}
		v, _ := constInt(ssa.NewConst(o.Val(), o.Type()))
		return v, true
	}
	for s, n := range map[string]string{"stun": "SchemeTypeSTUN", "stuns": "SchemeTypeSTUNS", "turn": "SchemeTypeTURN", "turns": "SchemeTypeTURNS", "": "SchemeTypeUnknown"} {
		if v, ok := get(n); ok {
			c.Scheme[s] = v
		}
	}
	for s, n := range map[string]string{"udp": "ProtoTypeUDP", "tcp": "ProtoTypeTCP", "": "ProtoTypeUnknown"} {
		if v, ok := get(n); ok {
			c.Proto[s] = v
		}
	}
	return c, miss
}

// foldField: fold comparisons of a load of field fv (any base) with constants, assuming the field holds k.
func foldField(fv *types.Var, k int64) func(cond ssa.Value, c *PathCtx) (bool, bool) {
	return foldFields(map[*types.Var]int64{fv: k})
}

// evalConstFn evaluates a library function of one parameter for the constant argument k by folding
// every comparison of that parameter with a constant; it returns the set of constants returned.
func evalConstFn(p *Prog, g *ssa.Function, k int64) (map[string]bool, bool) {
	if g == nil || g.Blocks == nil || len(g.Params) != 1 {
		return nil, false
	}
	pa := g.Params[0]
	out := map[string]bool{}
	ok := true
	q := &PathQuery{P: p, Fn: g}
	q.Fold = func(cond ssa.Value, c *PathCtx) (bool, bool) {
		pol := true
		for {
			if u, isU := cond.(*ssa.UnOp); isU && u.Op == token.NOT {
				pol = !pol
				cond = u.X
				continue
			}
			break
		}
		b, isB := cond.(*ssa.BinOp)
		if !isB || (b.Op != token.EQL && b.Op != token.NEQ) {
			return false, false
		}
		x, y := b.X, b.Y
		cv, isC := constInt(y)
		if !isC {
			cv, isC = constInt(x)
			x = y
		}
		if !isC || stripConvs(x) != ssa.Value(pa) {
			return false, false
		}
		return ((k == cv) == (b.Op == token.EQL)) == pol, true
	}
	q.AtReturn = func(ret *ssa.Return, st uint64, c *PathCtx) {
		v := c.Resolve(ret.Results[0])
		if cst, isC := v.(*ssa.Const); isC && cst.Value != nil {
			out[cst.Value.ExactString()] = true
		} else {
			ok = false
		}
	}
	q.Run()
	return out, ok && len(out) > 0
}

// rejectsNonEmptyQuery: on every success (nil-error) return of fn (explored under fold) either the
// condition len(url.ParseQuery(..)) > 0 is known false, or a library helper that itself satisfies this
// returned nil.
func rejectsNonEmptyQuery(p *Prog, fn *ssa.Function, fold func(ssa.Value, *PathCtx) (bool, bool), depth int) (okAll bool, examined bool) {
	if depth > 2 || fn == nil || fn.Blocks == nil {
		return false, false
	}
	idx := errorResultIndex(fn)
	if idx < 0 {
		return false, false
	}
	kk := newKeyer()
	keys := map[string]bool{}
	for _, b := range fn.Blocks {
		if iff, ok := b.Instrs[len(b.Instrs)-1].(*ssa.If); ok {
			if bo, ok := iff.Cond.(*ssa.BinOp); ok && bo.Op == token.GTR {
				if lc, ok := bo.X.(*ssa.Call); ok && isBuiltinCall(lc, "len") {
					if e, ok := lc.Call.Args[0].(*ssa.Extract); ok {
						if cc, ok := e.Tuple.(*ssa.Call); ok && isPkgFuncCall(cc, "net/url", "ParseQuery") {
							if z, ok := constInt(bo.Y); ok && z == 0 {
								key, _ := kk.condKey(iff.Cond)
								keys[key] = true
							}
						}
					}
				}
			}
		}
	}
	// the raw query itself is empty: rawParts.RawQuery == "" (or, inside a helper, its string parameter);
	// url.ParseQuery skips empty pairs, so "?&" has no arguments but is a query all the same
	rawKeys := map[string]bool{} // key -> polarity meaning "raw query is empty"
	isRawQuery := func(v ssa.Value) bool {
		v = stripConvs(v)
		if _, f := loadedField(v); f != nil && f.Name() == "RawQuery" && f.Pkg() != nil && f.Pkg().Path() == "net/url" {
			return true
		}
		if depth > 0 && len(fn.Params) == 1 && v == ssa.Value(fn.Params[0]) {
			return true
		}
		return false
	}
	for _, b := range fn.Blocks {
		iff, ok := b.Instrs[len(b.Instrs)-1].(*ssa.If)
		if !ok {
			continue
		}
		bo, ok := iff.Cond.(*ssa.BinOp)
		if !ok {
			continue
		}
		// condKey normalises x != y to the key of x == y and x > y to the key of y < x, so the truth value
		// of the key that means "the query is empty" does not depend on the spelling of the test
		key, _ := kk.condKey(iff.Cond)
		if s, isS := constString(bo.Y); isS && s == "" && isRawQuery(bo.X) && (bo.Op == token.EQL || bo.Op == token.NEQ) {
			rawKeys[key] = true
		}
		if lc, isL := bo.X.(*ssa.Call); isL && isBuiltinCall(lc, "len") && isRawQuery(lc.Call.Args[0]) {
			if z, isZ := constInt(bo.Y); isZ && z == 0 {
				switch bo.Op {
				case token.EQL, token.NEQ:
					rawKeys[key] = true
				case token.GTR:
					rawKeys[key] = false
				}
			}
		}
	}
	// helper calls: library functions of one string parameter returning error
	helperOK := map[*ssa.Call]bool{}
	eachInstr(fn, func(b *ssa.BasicBlock, i int, in ssa.Instruction) {
		if c, ok := in.(*ssa.Call); ok {
			if sc := c.Call.StaticCallee(); sc != nil && p.isLibFn(sc) && sc != fn && len(sc.Params) == 1 && sc.Signature.Results().Len() == 1 && errorResultIndex(sc) == 0 {
				if ok2, ex := rejectsNonEmptyQuery(p, sc, nil, depth+1); ok2 && ex {
					helperOK[c] = true
				}
			}
		}
	})
	okAll = true
	q := &PathQuery{P: p, Fn: fn, K: kk, Fold: fold}
	q.AtReturn = func(ret *ssa.Return, st uint64, c *PathCtx) {
		if c.NilState(ret.Results[idx]) != +1 {
			return
		}
		good := false
		for key, emptyWhen := range rawKeys {
			if v, known := c.Known(key); known && v == emptyWhen {
				good = true
			}
		}
		for hc := range helperOK {
			if c.NilState(hc) == +1 {
				good = true
			}
		}
		if !good {
			okAll = false
		}
	}
	q.Run()
	return okAll, len(rawKeys) > 0 || len(helperOK) > 0
}

// storedIntoField: v is the one value its function stores into one of the folded fields (every store to
// that field in the function stores v itself): the field, else nil.
func storedIntoField(v ssa.Value, vals map[*types.Var]int64) *types.Var {
	in, ok := v.(ssa.Instruction)
	var fn *ssa.Function
	if ok {
		fn = in.Parent()
	} else if pa, isP := v.(*ssa.Parameter); isP {
		fn = pa.Parent()
	}
	if fn == nil {
		return nil
	}
	var found *types.Var
	clean := true
	eachInstr(fn, func(b *ssa.BasicBlock, i int, ins ssa.Instruction) {
		st, isSt := ins.(*ssa.Store)
		if !isSt {
			return
		}
		fa, isFA := st.Addr.(*ssa.FieldAddr)
		if !isFA {
			return
		}
		f := fieldOfAddr(fa)
		if _, folded := vals[f]; !folded {
			return
		}
		if stripConvs(st.Val) == v {
			if found != nil && found != f {
				clean = false
			}
			found = f
		} else if found == f {
			clean = false
		}
	})
	if !clean || found == nil {
		return nil
	}
	// every store to that field stores v
	eachInstr(fn, func(b *ssa.BasicBlock, i int, ins ssa.Instruction) {
		if st, isSt := ins.(*ssa.Store); isSt {
			if fa, isFA := st.Addr.(*ssa.FieldAddr); isFA && fieldOfAddr(fa) == found && stripConvs(st.Val) != v {
				clean = false
			}
		}
	})
	if !clean {
		return nil
	}
	return found
}

func foldFields(vals map[*types.Var]int64) func(cond ssa.Value, c *PathCtx) (bool, bool) {
	var fold func(cond ssa.Value, c *PathCtx) (bool, bool)
	predCache := map[*ssa.Function][2]bool{}
	fold = func(cond ssa.Value, c *PathCtx) (bool, bool) {
		pol := true
		for {
			if u, ok := cond.(*ssa.UnOp); ok && u.Op == token.NOT {
				pol = !pol
				cond = u.X
				continue
			}
			break
		}
		if call, isCall := cond.(*ssa.Call); isCall {
			// a predicate method of the structure (uri.IsSecure()): evaluated under the same fold; decided
			// when every path returns the same constant
			g := call.Call.StaticCallee()
			if g == nil || g.Blocks == nil || len(g.Params) != 1 || c == nil || c.P == nil || !c.P.isLibFn(g) {
				return false, false
			}
			pt := g.Params[0].Type()
			if pp, isP := pt.Underlying().(*types.Pointer); isP {
				pt = pp.Elem()
			}
			st, isS := pt.Underlying().(*types.Struct)
			if !isS {
				return false, false
			}
			owns := false
			for f := range vals {
				for i := 0; i < st.NumFields(); i++ {
					if st.Field(i) == f {
						owns = true
					}
				}
			}
			if !owns {
				return false, false
			}
			res, have := predCache[g]
			if !have {
				var sawT, sawF, bad bool
				q := &PathQuery{P: c.P, Fn: g, Fold: fold}
				q.AtReturn = func(ret *ssa.Return, _ uint64, cc *PathCtx) {
					if len(ret.Results) != 1 {
						bad = true
						return
					}
					v := cc.Resolve(ret.Results[0])
					if k, isC := v.(*ssa.Const); isC && k.Value != nil {
						if k.Value.ExactString() == "true" {
							sawT = true
						} else {
							sawF = true
						}
						return
					}
					if bv, known := fold(v, cc); known {
						if bv {
							sawT = true
						} else {
							sawF = true
						}
						return
					}
					bad = true
				}
				q.Run()
				res = [2]bool{sawT, !bad && sawT != sawF}
				predCache[g] = res
			}
			if !res[1] {
				return false, false
			}
			return res[0] == pol, true
		}
		b, ok := cond.(*ssa.BinOp)
		if !ok || (b.Op != token.EQL && b.Op != token.NEQ) {
			return false, false
		}
		x, y := b.X, b.Y
		cv, isC := constInt(y)
		if !isC {
			cv, isC = constInt(x)
			x = y
		}
		if !isC {
			return false, false
		}
		_, f := loadedField(deref(stripConvs(x)))
		if f == nil {
			// a local that is what the function stores into the folded field (the structure is assembled at the
			// end from locals): the comparison is about the field's value all the same
			f = storedIntoField(stripConvs(x), vals)
		}
		k, have := vals[f]
		if f == nil || !have {
			return false, false
		}
		res := (k == cv) == (b.Op == token.EQL)
		return res == pol, true
	}
	return fold
}

func runC17(r *Run) {
	p := r.P
	r.Res.Explanation = "URI tables decided by folding the scheme (and transport) field to each of its values and exploring the residual paths of ParseURI, URI.String and DialURI: port range proved at every success return, host always taken from net.SplitHostPort, NewSchemeType/String and NewProtoType/String are inverse tables, default transport/port/query handling per scheme, parseProto's reject edges, ?transport= appended exactly for turn/turns, and the complete 5x3 dial table (plain UDP/TCP, DTLS over UDP, TLS over TCP with ServerName = Host set on a private copy of the config, ErrUnsupportedURI otherwise without dialling)"
	r.NotDecided("round trip for all accepted strings as such (only the table agreement that implies it)", "host syntax accepted by net and net/url")
	r.Assume("EXT: net.SplitHostPort strips the brackets of an IPv6 literal; net.JoinHostPort adds them; strconv.Atoi returns the decimal value")
	uc, miss := readURIConsts(p)
	parse, dial := p.Fn("ParseURI"), p.Fn("DialURI")
	uriT := p.Named("URI")
	an := r.Rule("C17.anchors", "ParseURI, DialURI, URI and the scheme/transport constants resolve", 4)
	for _, m := range miss {
		an.Fail(m, "constant not found")
	}
	for n, ok := range map[string]bool{"ParseURI": parse != nil, "DialURI": dial != nil, "URI": uriT != nil, "URI.String": p.Meth("URI", "String") != nil} {
		if ok {
			an.Instance(n, false, nil)
		} else {
			an.Fail(n, "not found")
		}
	}
	an.Done()
	if parse == nil || dial == nil || uriT == nil || len(miss) > 0 {
		return
	}
	r.Analysed(parse, dial)
	schemeF, hostF, portF, protoF := FieldVar(uriT, "Scheme"), FieldVar(uriT, "Host"), FieldVar(uriT, "Port"), FieldVar(uriT, "Proto")
	idx := errorResultIndex(parse)
	isSuccess := func(ret *ssa.Return, c *PathCtx) bool { return c.NilState(ret.Results[idx]) == +1 }

	// ---- port
	pt := r.Rule("C17.port", "at every success return of ParseURI the port field satisfies 0 <= port <= 65535 (proved from the guards on the value parsed by strconv.Atoi); ErrPort is returned only when the conversion failed or the number is proved outside that range", 1)
	{
		pr := newProver(p, parse)
		var loads []*ssa.UnOp
		for _, a := range fieldAccesses(parse, portF) {
			if a.Kind == "load" {
				loads = append(loads, a.Instr.(*ssa.UnOp))
			}
		}
		n := 0
		for _, ret := range returnsOf(parse) {
			if !isNilConst(deref(ret.Results[idx])) {
				continue
			}
			n++
			ok := false
			why := "no guarded read of the port field"
			for _, ld := range loads {
				c := pr.canonLoad(ld)
				// nothing may write the field between the canonical load and the return
				killed := false
				eachInstr(parse, func(b *ssa.BasicBlock, i int, in ssa.Instruction) {
					if pr.killsLoad(in, c) && reachableFrom(c, in) && reachableFrom(in, ret) {
						killed = true
					}
				})
				if killed || !instrDominates(c, ret) {
					continue
				}
				lo := pr.Prove(ret, Goal{X: nil, Y: c, C: 0})
				hi := pr.Prove(ret, Goal{X: c, XL: nil, YL: &lin{zeroTerm, 65535}, C: 0})
				if lo.OK && hi.OK {
					ok = true
				} else {
					why = "cannot prove " + map[bool]string{true: "port <= 65535", false: "0 <= port"}[lo.OK]
				}
			}
			if !ok {
				// the value stored into the field, on every path to this return, under the path's own conditions
				// (the range check may sit on a local before the store, or in a normalised helper)
				portStores := indexStores(parse, portF)
				all, any := true, false
				q := &PathQuery{P: p, Fn: parse}
				q.Step = func(in ssa.Instruction, deferred bool, st uint64, c *PathCtx) (uint64, bool) {
					if i, isSt := portStores.idx[in]; isSt {
						return uint64(i), false
					}
					return st, false
				}
				q.AtReturn = func(r2 *ssa.Return, st uint64, c *PathCtx) {
					if r2 != ret || c.NilState(r2.Results[idx]) == -1 {
						return
					}
					any = true
					if st == 0 {
						all = false
						return
					}
					v := c.Resolve(portStores.stores[st-1].Val)
					if !isStrconvResult(stripConvs(v)) {
						all = false
						why = "the stored port " + exprDepth(v, 0) + " is not the result of a strconv conversion of the port text (a hand-written conversion may wrap around)"
						return
					}
					conds := c.PathConds()
					lo := pr.Prove(ret, Goal{X: nil, Y: v, C: 0, assume: conds})
					hi := pr.Prove(ret, Goal{X: v, YL: &lin{zeroTerm, 65535}, C: 0, assume: conds})
					if !lo.OK || !hi.OK {
						all = false
						why = "cannot prove " + map[bool]string{true: "port <= 65535", false: "0 <= port"}[lo.OK] + " for the stored value " + exprDepth(v, 0)
					}
				}
				q.Run()
				if any && all && !q.Exhausted {
					ok = true
				}
			}
			pt.Instance(fmt.Sprintf("success return %d", n), true, map[string]interface{}{"return": p.pos(instrPos(ret)), "proved": ok})
			pt.Obligation(ok, false)
			if !ok {
				pt.Violation(parse, instrPos(ret), "port range", "a URI is accepted whose port may lie outside 0-65535 ("+why+"): stun:host:99999 or stun:host:-5 parse successfully")
			}
		}
		if n == 0 {
			pt.Fail("success return", "ParseURI has no `return uri, nil`")
		}
		// and the other way round: the port error is returned only for a text strconv refused or for a number
		// proved outside 0-65535 - every port of the range is accepted
		if errPort, _ := p.Stun.Members["ErrPort"].(*ssa.Global); errPort != nil {
			portStores := indexStores(parse, portF)
			rep := map[*ssa.Return]bool{}
			nRej := 0
			q := &PathQuery{P: p, Fn: parse}
			q.Step = func(in ssa.Instruction, deferred bool, st uint64, c *PathCtx) (uint64, bool) {
				if i, isSt := portStores.idx[in]; isSt {
					return uint64(i), false
				}
				return st, false
			}
			q.AtReturn = func(r2 *ssa.Return, st uint64, c *PathCtx) {
				ev := c.Resolve(deref(c.Resolve(r2.Results[idx])))
				if !loadsGlobal(ev, errPort) || rep[r2] {
					return
				}
				nRej++
				if st == 0 {
					return // refused before any number was stored
				}
				v := c.Resolve(portStores.stores[st-1].Val)
				sv := stripConvs(v)
				if ex, isEx := sv.(*ssa.Extract); isEx {
					for _, u := range *ex.Tuple.Referrers() {
						if e2, isE := u.(*ssa.Extract); isE && e2.Index == 1 && c.NilState(e2) == -1 {
							return // the conversion failed
						}
					}
				}
				conds := c.PathConds()
				outside := false
				cands := []ssa.Value{v}
				for _, ld := range loads {
					// the guard may read the number back from the field: the reads the return's path has passed
					if instrDominates(ld, r2) || reachableFrom(ld, r2) {
						cands = append(cands, pr.canonLoad(ld))
					}
				}
				for _, cv := range cands {
					below := pr.Prove(r2, Goal{X: cv, YL: &lin{zeroTerm, -1}, C: 0, assume: conds})
					above := pr.Prove(r2, Goal{XL: &lin{zeroTerm, 65536}, Y: cv, C: 0, assume: conds})
					if below.OK || above.OK {
						outside = true
					}
				}
				if !outside {
					rep[r2] = true
					pt.ViolationPath(parse, instrPos(r2), "port refused although it may lie within 0-65535", "on this path the port text converted and the number is not proved negative or above 65535: a valid port (0 or 65535, say) is refused", c.Witness(parse, r2))
				}
			}
			q.Run()
			pt.Instance("port rejections", true, map[string]interface{}{"reject_paths": nRej})
		}
	}
	pt.Done()

	// ---- host
	ho := r.Rule("C17.host", "the host field is only ever assigned the host result of net.SplitHostPort (brackets of IPv6 literals stripped, port separated) and an empty host is rejected", 2)
	{
		// on every success path the value last stored into Host is the host result of net.SplitHostPort
		// (resolved on the path: it may arrive through the merged result of a normalised helper)
		hostStores := indexStores(parse, hostF)
		isSplitHost := func(v ssa.Value) bool {
			e, ok := v.(*ssa.Extract)
			if !ok || e.Index != 0 {
				return false
			}
			c, isC := e.Tuple.(*ssa.Call)
			return isC && isPkgFuncCall(c, "net", "SplitHostPort")
		}
		rep := map[ssa.Instruction]bool{}
		q := &PathQuery{P: p, Fn: parse}
		stored := map[int]ssa.Value{}
		q.Step = func(in ssa.Instruction, deferred bool, st uint64, c *PathCtx) (uint64, bool) {
			if i, ok := hostStores.idx[in]; ok {
				// remember what this store wrote on this path (by store index and resolved value)
				v := c.Resolve(deref(c.Resolve(hostStores.stores[i-1].Val)))
				if isSplitHost(v) {
					return uint64(i)<<1 | 1, false
				}
				stored[i] = v
				return uint64(i) << 1, false
			}
			return st, false
		}
		nSucc := 0
		q.AtReturn = func(ret *ssa.Return, st uint64, c *PathCtx) {
			if c.NilState(ret.Results[idx]) == -1 {
				return
			}
			nSucc++
			i := int(st >> 1)
			if st&1 == 1 || rep[ret] {
				return
			}
			rep[ret] = true
			desc := "never assigned"
			pos := instrPos(ret)
			if i > 0 {
				desc = exprDepth(stored[i], 0)
				pos = instrPos(hostStores.stores[i-1])
			}
			ho.ViolationPath(parse, pos, "Host = "+desc, "the host is not the host part returned by net.SplitHostPort: an IPv6 literal keeps its brackets (String() then yields [[::1]]:3478, which parses to a different URI) or the port stays attached", c.Witness(parse, ret))
		}
		q.Run()
		ho.Instance("host on success paths", true, map[string]int{"success_paths": nSucc, "host_stores": len(hostStores.stores)})
		// empty host rejected: success returns are dominated by the false edge of host == ""
		okEmpty := false
		for _, ci := range ifsOn(parse, func(v ssa.Value) bool {
			b, ok := v.(*ssa.BinOp)
			if !ok || (b.Op != token.EQL && b.Op != token.NEQ) {
				return false
			}
			isHost := func(v ssa.Value) bool {
				return valueIsLoadOfField(v, hostF) || storedIntoField(stripConvs(v), map[*types.Var]int64{hostF: 0}) == hostF
			}
			// len(host) == 0 is the same test
			if lc, isL := b.X.(*ssa.Call); isL && isBuiltinCall(lc, "len") {
				if z, isZ := constInt(b.Y); isZ && z == 0 && isHost(lc.Call.Args[0]) {
					return true
				}
			}
			s, isS := constString(b.Y)
			return isS && s == "" && isHost(b.X)
		}) {
			b := ci.Val.(*ssa.BinOp)
			nonEmpty := ci.OnFalse
			if b.Op == token.NEQ {
				nonEmpty = ci.OnTrue
			}
			all := true
			for _, ret := range returnsOf(parse) {
				if isNilConst(deref(ret.Results[idx])) && !blockDominates(nonEmpty, ret.Block()) {
					all = false
				}
			}
			if all {
				okEmpty = true
			}
		}
		ho.Instance("empty host rejected", true, nil)
		if !okEmpty {
			ho.Violation(parse, parse.Pos(), "empty host accepted", "a URI without host parses successfully")
		}
	}
	ho.Done()

	// ---- scheme / proto tables
	tb := r.Rule("C17.tables", "NewSchemeType/SchemeType.String and NewProtoType/ProtoType.String are inverse over the four schemes and two transports; per scheme: default transport, default port, query handling", 16)
	{
		check := func(newName, typName string, want map[string]int64) {
			nf, sf := p.Fn(newName), p.Meth(typName, "String")
			if nf == nil || sf == nil {
				tb.Fail(newName+"/"+typName+".String", "not found")
				return
			}
			r.Analysed(nf, sf)
			if os.Getenv("STUNLINT_DEBUGTAB") != "" {
				debugTables(p)
			}
			nt, _, ok1 := switchTable(nf)
			stt, _, ok2 := switchTable(sf)
			ok1, ok2 = ok1 && len(nt) > 0, ok2 && len(stt) > 0
			if !ok1 || !ok2 {
				// general form: evaluate the functions over the finite domain (comparisons and lookups in
				// read-only package tables)
				var names, vals []constant.Value
				for s, v := range want {
					names = append(names, constant.MakeString(s))
					vals = append(vals, constant.MakeInt64(v))
				}
				if !ok1 {
					nt, _, ok1 = constFnTable(p, nf, names)
				}
				if !ok2 {
					stt, _, ok2 = constFnTable(p, sf, vals)
				}
			}
			if !ok1 || !ok2 {
				tb.Violation(nf, nf.Pos(), newName+" table", "cannot extract the decision table (not a chain of equality tests on the argument): undecided")
				return
			}
			for s, v := range want {
				if s == "" {
					continue
				}
				got := nt[fmt.Sprintf("%q", s)]
				back := stt[fmt.Sprint(v)]
				tb.Instance(newName+"|"+s, true, map[string]string{"name": s, "value": got, "string_of_value": back})
				if got != fmt.Sprint(v) {
					tb.Violation(nf, nf.Pos(), fmt.Sprintf("%s(%q) = %s", newName, s, got), fmt.Sprintf("must be %d", v))
				}
				if back != fmt.Sprintf("%q", s) {
					tb.Violation(sf, sf.Pos(), fmt.Sprintf("%s(%d).String() = %s", typName, v, back), fmt.Sprintf("must be %q so that String and Parse round-trip", s))
				}
			}
			// nothing else is accepted
			for k, v := range nt {
				known := false
				for s := range want {
					if fmt.Sprintf("%q", s) == k {
						known = true
					}
				}
				if !known && v != fmt.Sprint(want[""]) {
					tb.Violation(nf, nf.Pos(), fmt.Sprintf("%s(%s) = %s", newName, k, v), "an unknown name is mapped to a known value")
				}
			}
		}
		check("NewSchemeType", "SchemeType", uc.Scheme)
		check("NewProtoType", "ProtoType", uc.Proto)
		checkParsePerScheme(r, tb, parse, uc, schemeF, protoF, isSuccess)
		checkParseProto(r, tb, uc)
	}
	tb.Done()

	// ---- String
	st := r.Rule("C17.string", "URI.String = scheme \":\" JoinHostPort(host, port) and appends ?transport=<proto> exactly for turn and turns", 4)
	checkURIString(r, st, uc, schemeF, hostF, portF, protoF)
	st.Done()
	fd := r.Rule("C17.fields", "every field of URI that ParseURI fills with a non-zero value is one that URI.String reads: what was parsed can be printed again, so ParseURI(u.String()) can give back u", 4)
	checkURIFields(r, fd)
	fd.Done()

	// ---- dial
	dl := r.Rule("C17.dial", "DialURI over all scheme x transport combinations: stun -> plain UDP; turn -> plain UDP, or TCP for transport tcp; turns+udp -> DTLS over DialUDP; stuns|turns + tcp -> TLS over TCP; ServerName = Host set unconditionally on a private copy of the config; every other combination returns ErrUnsupportedURI without dialling", 15)
	checkDialTable(r, dl, dial, uc, schemeF, hostF, protoF)
	dl.Done()

	// ---- DTLS gets a packet connection it can write to
	dp := r.Rule("C17.dtlsconn", "the net.PacketConn handed to dtls.Client is not a connected UDP socket (the result of DialUDP) as such: pion/dtls sends with WriteTo, which a connected socket refuses, so the handshake could never leave it (EXT); a connected socket is wrapped with dtls/pkg/net.PacketConnFromConn", 1)
	if dial != nil {
		n := 0
		eachInstr(dial, func(b *ssa.BasicBlock, i int, in ssa.Instruction) {
			c, ok := in.(*ssa.Call)
			if !ok || !isPkgFuncCall(c, "github.com/pion/dtls/v3", "Client") || len(c.Call.Args) < 1 {
				return
			}
			n++
			v := c.Call.Args[0]
			for k := 0; k < 6; k++ {
				switch x := v.(type) {
				case *ssa.MakeInterface:
					v = x.X
					continue
				case *ssa.ChangeInterface:
					v = x.X
					continue
				case *ssa.ChangeType:
					v = x.X
					continue
				case *ssa.Phi:
					v = canonPhi(x)
					if v == ssa.Value(x) {
						k = 6
					}
					continue
				case *ssa.Extract:
					v = x.Tuple
					continue
				}
				break
			}
			desc := exprDepth(v, 0)
			if call, isC := v.(*ssa.Call); isC {
				if call.Call.IsInvoke() && strings.HasPrefix(call.Call.Method.Name(), "Dial") {
					dp.Violation(dial, instrPos(c), "dtls.Client("+desc+", ...)", "a connected UDP socket is given to DTLS as net.PacketConn: every record is sent with WriteTo, which Go refuses on a connected socket (ErrWriteToConnected) - DialURI returns a client whose handshake can never leave the socket, every request fails")
				}
			}
			dp.Instance("dtls.Client|packet connection", true, map[string]string{"conn": desc})
		})
		if n == 0 {
			dp.Fail("dtls.Client call", "not found in DialURI")
		}
	}
	dp.Done()

	// ---- every network operation of DialURI goes through the configured Net
	nt := r.Rule("C17.net", "DialURI and the library functions it calls never dial, resolve, look up or listen through the package-level functions of package net: the peer that is reached is the one the configured Net yields for the URI's host and transport", 1)
	if dial != nil {
		cl := p.CG().Closure([]*ssa.Function{dial}, func(f *ssa.Function) bool { return p.isLibFn(f) })
		nCalls := 0
		for _, f := range cl {
			r.Analysed(f)
			eachInstr(f, func(b *ssa.BasicBlock, i int, in ssa.Instruction) {
				ci, ok := in.(ssa.CallInstruction)
				if !ok {
					return
				}
				if ci.Common().IsInvoke() {
					nCalls++
					return
				}
				sc := ci.Common().StaticCallee()
				if sc == nil || sc.Pkg == nil || sc.Pkg.Pkg.Path() != "net" || sc.Signature.Recv() != nil {
					return
				}
				for _, pre := range []string{"Dial", "Resolve", "Lookup", "Listen"} {
					if strings.HasPrefix(sc.Name(), pre) {
						nt.Violation(f, instrPos(in), "net."+sc.Name(), "the operating system's network is used directly instead of the configured Net: with an injected network (or a proxying one) the host is resolved or dialled somewhere else than the other transports of the same URI")
					}
				}
			})
		}
		nt.Instance(fnName(dial), true, map[string]int{"closure_functions": len(cl), "interface_calls": nCalls})
	}
	nt.Done()
}

func checkParsePerScheme(r *Run, rc *RuleCtx, parse *ssa.Function, uc *uriConsts, schemeF, protoF *types.Var, isSuccess func(*ssa.Return, *PathCtx) bool) {
	p := r.P
	// the exported default ports (what a caller puts into a URI it builds by hand) are the RFC's
	for name, want := range map[string]int64{"DefaultPort": 3478, "DefaultTLSPort": 5349} {
		if c, ok := p.Stun.Pkg.Scope().Lookup(name).(*types.Const); ok {
			got, exact := constant.Int64Val(constant.ToInt(c.Val()))
			rc.Instance("const "+name, true, map[string]interface{}{"constant": name, "value": got, "rfc": want})
			if !exact || got != want {
				rc.Violation(parse, c.Pos(), fmt.Sprintf("%s = %d", name, got), fmt.Sprintf("the default port of RFC 7064/7065 is %d", want))
			}
		}
	}
	parseProto := p.Fn("parseProto")
	wantProto := map[string]string{"stun": "udp", "stuns": "tcp", "turn": "udp", "turns": "tcp"}
	wantPort := map[string]string{"stun": ":3478", "stuns": ":5349", "turn": ":3478", "turns": ":5349"}
	protoStores := indexStores(parse, protoF)
	var names []string
	for n := range wantProto {
		names = append(names, n)
	}
	sort.Strings(names)
	for _, name := range names {
		k := uc.Scheme[name]
		q := &PathQuery{P: p, Fn: parse, Fold: foldField(schemeF, k)}
		const (
			sawParseQuery = 1 << 8
			sawParseProto = 1 << 9
		)
		defaults := map[string]bool{}
		q.Step = func(in ssa.Instruction, deferred bool, st uint64, c *PathCtx) (uint64, bool) {
			if i, ok := protoStores.idx[in]; ok {
				st = st&^0xff | uint64(i)
			}
			if cc, ok := in.(*ssa.Call); ok {
				if isPkgFuncCall(cc, "net/url", "ParseQuery") {
					st |= sawParseQuery
				}
				if sc := cc.Call.StaticCallee(); sc != nil && p.isLibFn(sc) && sc != parseProto {
					eachInstr(sc, func(bb *ssa.BasicBlock, j int, x ssa.Instruction) {
						if isPkgFuncCall(x, "net/url", "ParseQuery") {
							st |= sawParseQuery
						}
					})
				}
				if parseProto != nil && callsFn(cc, parseProto) {
					st |= sawParseProto
				}
				if isPkgFuncCall(cc, "net", "SplitHostPort") {
					arg := deref(c.Resolve(deref(cc.Call.Args[0])))
					if os.Getenv("STUNLINT_DEBUGTAB") != "" {
						fmt.Println("SPLIT", exprDepth(cc.Call.Args[0], 0), "->", exprDepth(arg, 0), c.Witness(parse, cc))
					}
					if b, ok := arg.(*ssa.BinOp); ok && b.Op == token.ADD {
						y := c.Resolve(b.Y)
						if s, ok := constString(y); ok {
							defaults[s] = true
						} else if hc, ok := y.(*ssa.Call); ok && len(hc.Call.Args) == 1 && valueIsLoadOfField(deref(stripConvs(hc.Call.Args[0])), schemeF) {
							// a helper mapping the scheme to the port suffix: evaluate it for this scheme
							if res, ok := evalConstFn(p, hc.Call.StaticCallee(), k); ok {
								for s := range res {
									if len(s) >= 2 {
										defaults[s[1:len(s)-1]] = true
									}
								}
							} else {
								defaults["?"] = true
							}
						} else {
							defaults["?"] = true
						}
					}
				}
			}
			return st, false
		}
		finals := map[string]bool{}
		nSucc := 0
		queryUnchecked := false
		q.AtReturn = func(ret *ssa.Return, st uint64, c *PathCtx) {
			if !isSuccess(ret, c) {
				return
			}
			nSucc++
			i := int(st & 0xff)
			if i == 0 {
				finals["unset"] = true
			} else {
				v := c.Resolve(protoStores.stores[i-1].Val)
				if cv, ok := constInt(v); ok {
					// a path on which the stored constant contradicts a later test of the field (stored Unknown, then
					// took the "not Unknown" side of `if uri.Proto == Unknown { default }`) is not an execution
					infeasible := false
					for _, pc := range c.PathConds() {
						bo, isB := c.Resolve(pc.Cond).(*ssa.BinOp)
						if !isB || (bo.Op != token.EQL && bo.Op != token.NEQ) {
							continue
						}
						k, isK := constInt(bo.Y)
						if !isK || !valueIsLoadOfField(stripConvs(bo.X), protoF) {
							continue
						}
						ld, _ := stripConvs(bo.X).(ssa.Instruction)
						if ld == nil || !instrDominates(protoStores.stores[i-1], ld) {
							continue
						}
						holds := (k == cv) == (bo.Op == token.EQL)
						if holds != pc.Val {
							infeasible = true
						}
					}
					if infeasible {
						nSucc--
						return
					}
					finals[fmt.Sprintf("const %d", cv)] = true
					// for turn/turns the default is what is stored when the query named no transport: the path has
					// tested the transport (the field, the value parseProto returned, or the query's text) against
					// "none" and found it so
					if strings.HasPrefix(name, "turn") && cv == uc.Proto[wantProto[name]] {
						tested := false
						for _, pc := range c.PathConds() {
							cond, val := pc.Cond, pc.Val
							for {
								u, isU := cond.(*ssa.UnOp)
								if !isU || u.Op != token.NOT {
									break
								}
								cond, val = u.X, !val
							}
							bo, isB := c.Resolve(cond).(*ssa.BinOp)
							if !isB || (bo.Op != token.EQL && bo.Op != token.NEQ) {
								continue
							}
							x, y := stripConvs(deref(bo.X)), bo.Y
							isProto := valueIsLoadOfField(x, protoF)
							if e, isE := x.(*ssa.Extract); isE {
								if cc, isC := e.Tuple.(*ssa.Call); isC && parseProto != nil && callsFn(cc, parseProto) && e.Index == 0 {
									isProto = true
								}
							}
							if cc, isC := x.(*ssa.Call); isC && p.Fn("NewProtoType") != nil && callsFn(cc, p.Fn("NewProtoType")) {
								isProto = true
							}
							if k, isK := constInt(y); isK && isProto && k == uc.Proto[""] && (bo.Op == token.EQL) == val {
								tested = true
							}
							if ks, isS := constString(y); isS && ks == "" && fromTransportQuery(bo.X) && (bo.Op == token.EQL) == val {
								tested = true
							}
						}
						if !tested {
							finals["default stored without finding the query's transport absent"] = true
						}
					}
				} else if cv, ok := constOfTableLoad(p, v); ok {
					finals[fmt.Sprintf("const %d", cv)] = true
				} else if e, ok := deref(v).(*ssa.Extract); ok {
					if cc, ok := e.Tuple.(*ssa.Call); ok && parseProto != nil && callsFn(cc, parseProto) {
						finals["query"] = true
					} else {
						finals["?"+exprDepth(v, 0)] = true
					}
				} else if cc, ok := stripConvs(deref(v)).(*ssa.Call); ok && p.Fn("NewProtoType") != nil && callsFn(cc, p.Fn("NewProtoType")) && len(cc.Call.Args) == 1 && fromTransportQuery(cc.Call.Args[0]) {
					// the query's transport value converted in place (the helper's body is part of ParseURI)
					finals["query"] = true
				} else {
					finals["?"+exprDepth(v, 0)] = true
				}
			}
			if st&(sawParseQuery|sawParseProto) == 0 {
				queryUnchecked = true
			}
		}
		q.Run()
		var fl []string
		for f := range finals {
			fl = append(fl, f)
		}
		sort.Strings(fl)
		var dl []string
		for d := range defaults {
			dl = append(dl, d)
		}
		sort.Strings(dl)
		rc.Instance("ParseURI|"+name, true, map[string]interface{}{"scheme": name, "success_paths": nSucc, "final_transport": fl, "default_port": dl})
		def := fmt.Sprintf("const %d", uc.Proto[wantProto[name]])
		var want []string
		if strings.HasPrefix(name, "turn") {
			want = []string{def, "query"}
		} else {
			want = []string{def}
		}
		sort.Strings(want)
		if strings.Join(fl, ",") != strings.Join(want, ",") {
			rc.Violation(parse, parse.Pos(), fmt.Sprintf("transport of %s URIs: %v", name, fl), fmt.Sprintf("must be %v (default %s; ?transport= only for turn/turns)", want, wantProto[name]))
		}
		if len(dl) != 1 || dl[0] != wantPort[name] {
			rc.Violation(parse, parse.Pos(), fmt.Sprintf("default port of %s URIs: %v", name, dl), "must be "+wantPort[name][1:])
		}
		if queryUnchecked && strings.HasPrefix(name, "turn") {
			// (for stun/stuns the rule below decides, whatever form the test of the raw query takes)
			rc.Violation(parse, parse.Pos(), "query of "+name+" URIs not examined", "a success path does not parse the query: stun/stuns URIs with a query (or turn URIs with unknown keys) are accepted")
		}
		if nSucc == 0 {
			rc.Violation(parse, parse.Pos(), name+" URIs never accepted", "")
		}
	}
	// stun/stuns reject non-empty queries
	for _, name := range []string{"stun", "stuns"} {
		okAll, examined := rejectsNonEmptyQuery(p, parse, foldField(schemeF, uc.Scheme[name]), 0)
		rc.Instance("ParseURI|"+name+" rejects queries", true, nil)
		if !okAll || !examined {
			rc.Violation(parse, parse.Pos(), name+" URI with query accepted", "RFC 7064: stun/stuns URIs carry no query")
		}
	}
}

// fromTransportQuery: v is the value of the "transport" key of a parsed query (Values.Get("transport"), or the
// first element of values["transport"]).
func fromTransportQuery(v ssa.Value) bool {
	v = deref(v)
	if c, ok := v.(*ssa.Call); ok && isMethodCall(c, "net/url", "Values", "Get") && len(c.Call.Args) == 2 {
		if s, isS := constString(c.Call.Args[1]); isS && s == "transport" {
			return true
		}
	}
	if ld, ok := v.(*ssa.UnOp); ok && ld.Op == token.MUL {
		if ia, isIA := ld.X.(*ssa.IndexAddr); isIA {
			if lk, isLk := ia.X.(*ssa.Lookup); isLk {
				if ks, isS := constString(lk.Index); isS && ks == "transport" {
					return true
				}
			}
		}
	}
	if ph, ok := v.(*ssa.Phi); ok {
		for _, e := range ph.Edges {
			if !fromTransportQuery(e) {
				if c, isC := e.(*ssa.Const); isC && c.Value != nil && c.Value.ExactString() == `""` {
					continue
				}
				return false
			}
		}
		return len(ph.Edges) > 0
	}
	return false
}

func checkParseProto(r *Run, rc *RuleCtx, uc *uriConsts) {
	p := r.P
	fn := p.Fn("parseProto")
	if fn == nil {
		// the query handling sits in ParseURI itself (written there, or a differently shaped helper that the
		// normalisation merged into it): the same conditions are looked for there, and each must lead to an error
		// return whenever it holds
		fn = p.Fn("ParseURI")
	}
	if fn == nil {
		rc.Fail("parseProto", "not found")
		return
	}
	r.Analysed(fn)
	idx := errorResultIndex(fn)
	// the conditions of interest, by shape; what they imply is decided per path below
	type condOfInterest struct {
		what string
		key  string
		pol  bool
	}
	kk := newKeyer()
	var conds []condOfInterest
	var gotMulti, gotUnknown, gotExtra, gotKey bool
	newProto := p.Fn("NewProtoType")
	eachInstr(fn, func(b *ssa.BasicBlock, i int, in ssa.Instruction) {
		if c, ok := in.(*ssa.Call); ok && isMethodCall(c, "net/url", "Values", "Get") {
			if s, ok := constString(c.Call.Args[1]); ok && s == "transport" {
				gotKey = true
			}
		}
		// the same read spelt out: qArgs["transport"] and its first element
		if lk, ok := in.(*ssa.Lookup); ok && !lk.CommaOk {
			if ks, isS := constString(lk.Index); isS && ks == "transport" {
				for _, u := range *lk.Referrers() {
					if ia, isIA := u.(*ssa.IndexAddr); isIA {
						if z, isZ := constInt(ia.Index); isZ && z == 0 {
							gotKey = true
						}
					}
				}
			}
		}
		iff, ok := in.(*ssa.If)
		if !ok {
			return
		}
		bo, ok := iff.Cond.(*ssa.BinOp)
		if !ok {
			return
		}
		key, pol := kk.condKey(iff.Cond)
		// len(qArgs) > 1 / > 0, in any equivalent spelling (>= 2, != 0)
		if lc, ok := bo.X.(*ssa.Call); ok && isBuiltinCall(lc, "len") && (bo.Op == token.GTR || bo.Op == token.GEQ || bo.Op == token.NEQ) {
			n, ok := constInt(bo.Y)
			switch {
			case ok && bo.Op == token.GEQ:
				n--
			case ok && bo.Op == token.NEQ && n != 0:
				ok = false
			}
			if ok {
				// len(qArgs["transport"]) > 1: the values of the one key (url.ParseQuery folds repeated keys)
				if lk, isLk := lc.Call.Args[0].(*ssa.Lookup); isLk && !lk.CommaOk {
					if ks, isS := constString(lk.Index); isS && ks == "transport" && n == 1 {
						conds = append(conds, condOfInterest{"repeat", key, pol})
					}
					return
				}
				if n == 1 {
					conds = append(conds, condOfInterest{"multi", key, pol})
				}
				if n == 0 {
					conds = append(conds, condOfInterest{"extra", key, pol})
				}
			}
		}
		// NewProtoType(x) == Unknown
		if cc, ok := stripConvs(bo.X).(*ssa.Call); ok && newProto != nil && callsFn(cc, newProto) && (bo.Op == token.EQL || bo.Op == token.NEQ) {
			if n, ok := constInt(bo.Y); ok && n == uc.Proto[""] {
				conds = append(conds, condOfInterest{"unknown", key, pol == (bo.Op == token.EQL)})
				if bo.Op == token.NEQ {
					// key/pol describe "!= Unknown"; the condition of interest is its negation
					conds[len(conds)-1].pol = !pol
				} else {
					conds[len(conds)-1].pol = pol
				}
			}
		}
	})
	seen := map[string]bool{}
	bad := map[string]bool{}
	q := &PathQuery{P: p, Fn: fn, K: kk}
	q.AtReturn = func(ret *ssa.Return, st uint64, c *PathCtx) {
		ns := c.NilState(ret.Results[idx])
		for _, ci := range conds {
			v, known := c.Known(ci.key)
			if !known || v != ci.pol {
				continue
			}
			seen[ci.what] = true
			if ns != -1 {
				bad[ci.what] = true
			}
		}
	}
	q.Run()
	gotMulti = seen["multi"] && !bad["multi"]
	gotExtra = seen["extra"] && !bad["extra"]
	gotUnknown = seen["unknown"] && !bad["unknown"]
	gotRepeat := seen["repeat"] && !bad["repeat"]
	for n, ok := range map[string]bool{"a repeated transport key rejected (Get reads only the first value)": gotRepeat, "more than one query key rejected": gotMulti, "unknown transport value rejected": gotUnknown, "keys other than transport rejected": gotExtra, "the key is \"transport\"": gotKey} {
		rc.Instance("parseProto|"+n, true, nil)
		if !ok {
			rc.Violation(fn, fn.Pos(), "parseProto: "+n, "RFC 7065: the only query is ?transport=udp|tcp")
		}
	}
}

// checkURIFields: see rule C17.fields.
func checkURIFields(r *Run, rc *RuleCtx) {
	p := r.P
	parse, str := p.Fn("ParseURI"), p.Meth("URI", "String")
	uriT := p.Named("URI")
	if parse == nil || str == nil || uriT == nil {
		rc.Fail("ParseURI / URI.String", "not found")
		return
	}
	st := uriT.Underlying().(*types.Struct)
	written := map[*types.Var]ssa.Instruction{}
	// what ParseURI (with the helpers the normalisation merged into it, and module functions it hands the URI to) stores
	seen := map[*ssa.Function]bool{}
	var walk func(fn *ssa.Function, depth int)
	walk = func(fn *ssa.Function, depth int) {
		if fn == nil || seen[fn] || fn.Blocks == nil || depth > 3 || !p.isLibFn(fn) {
			return
		}
		seen[fn] = true
		r.Analysed(fn)
		eachInstr(fn, func(b *ssa.BasicBlock, i int, in ssa.Instruction) {
			if s, ok := in.(*ssa.Store); ok {
				if fa, isFA := s.Addr.(*ssa.FieldAddr); isFA {
					fv := fieldOfAddr(fa)
					for k := 0; k < st.NumFields(); k++ {
						if st.Field(k) == fv {
							// storing the zero value is not information
							if c, isC := s.Val.(*ssa.Const); isC && (c.Value == nil || c.Value.ExactString() == `""` || c.Value.ExactString() == "0") {
								continue
							}
							written[fv] = in
						}
					}
				}
			}
			if c, ok := in.(ssa.CallInstruction); ok {
				if sc := c.Common().StaticCallee(); sc != nil {
					for _, a := range c.Common().Args {
						if pt, isP := a.Type().Underlying().(*types.Pointer); isP && types.Identical(pt.Elem(), uriT) {
							walk(sc, depth+1)
						}
					}
				}
			}
		})
	}
	walk(parse, 0)
	read := map[*types.Var]bool{}
	seenS := map[*ssa.Function]bool{}
	var walkS func(fn *ssa.Function, depth int)
	walkS = func(fn *ssa.Function, depth int) {
		if fn == nil || seenS[fn] || fn.Blocks == nil || depth > 3 || !p.isLibFn(fn) {
			return
		}
		seenS[fn] = true
		r.Analysed(fn)
		eachInstr(fn, func(b *ssa.BasicBlock, i int, in ssa.Instruction) {
			switch x := in.(type) {
			case *ssa.FieldAddr:
				read[fieldOfAddr(x)] = true
			case *ssa.Field:
				if n, ok := x.X.Type().(*types.Named); ok && n == uriT {
					read[st.Field(x.Field)] = true
				}
			}
			if c, ok := in.(ssa.CallInstruction); ok {
				walkS(c.Common().StaticCallee(), depth+1)
			}
		})
	}
	walkS(str, 0)
	for k := 0; k < st.NumFields(); k++ {
		fv := st.Field(k)
		at, w := written[fv]
		rc.Instance("URI."+fv.Name(), true, map[string]interface{}{"field": fv.Name(), "set_by_ParseURI": w, "printed_by_String": read[fv]})
		if w && !read[fv] {
			rc.Violation(at.Parent(), instrPos(at), "URI."+fv.Name()+" parsed but not printed", "ParseURI fills a field that URI.String never looks at: ParseURI(u.String()) cannot give back that part, so an accepted URI does not survive the round trip")
		}
	}
}

func checkURIString(r *Run, rc *RuleCtx, uc *uriConsts, schemeF, hostF, portF, protoF *types.Var) {
	p := r.P
	fn := p.Meth("URI", "String")
	if fn == nil {
		rc.Fail("URI.String", "not found")
		return
	}
	r.Analysed(fn)
	// JoinHostPort(host, Itoa(port))
	okJoin := false
	// a value that is the given field: directly, or a parameter of an unexported helper to which every
	// library caller passes that field
	isField := func(v ssa.Value, fv *types.Var) bool {
		v = deref(v)
		if valueIsLoadOfField(v, fv) {
			return true
		}
		if pa, isP := v.(*ssa.Parameter); isP {
			if args, known := callerArgsOf(pa); known {
				for _, a := range args {
					if !valueIsLoadOfField(deref(a), fv) {
						return false
					}
				}
				return true
			}
		}
		return false
	}
	scan := func(g *ssa.Function) {
		eachInstr(g, func(b *ssa.BasicBlock, i int, in ssa.Instruction) {
			if c, ok := in.(*ssa.Call); ok && isPkgFuncCall(c, "net", "JoinHostPort") {
				h := isField(c.Call.Args[0], hostF)
				pOK := false
				if ic, ok := c.Call.Args[1].(*ssa.Call); ok && isPkgFuncCall(ic, "strconv", "Itoa") && isField(ic.Call.Args[0], portF) {
					pOK = true
				}
				if h && pOK {
					okJoin = true
				}
			}
		})
	}
	scan(fn)
	eachInstr(fn, func(b *ssa.BasicBlock, i int, in ssa.Instruction) {
		if sc := staticCallee(in); sc != nil && p.isLibFn(sc) && sc.Object() != nil && !sc.Object().Exported() {
			r.Analysed(sc)
			scan(sc)
		}
	})
	rc.Instance("JoinHostPort", true, nil)
	if !okJoin {
		rc.Violation(fn, fn.Pos(), "host:port formatting", "String must format host and port with net.JoinHostPort (IPv6 literals need brackets to parse back)")
	}
	var names []string
	for n := range uc.Scheme {
		if n != "" {
			names = append(names, n)
		}
	}
	sort.Strings(names)
	for _, name := range names {
		q := &PathQuery{P: p, Fn: fn, Fold: foldField(schemeF, uc.Scheme[name])}
		q.Step = func(in ssa.Instruction, deferred bool, st uint64, c *PathCtx) (uint64, bool) {
			if b, ok := in.(*ssa.BinOp); ok && b.Op == token.ADD {
				for _, o := range []ssa.Value{b.X, b.Y} {
					if s, ok := constString(o); ok && s == "?transport=" {
						st |= 1
					}
				}
			}
			if c2, ok := in.(*ssa.Call); ok {
				if sc := c2.Call.StaticCallee(); sc != nil && sc.Name() == "String" && len(c2.Call.Args) == 1 && valueIsLoadOfField(deref(c2.Call.Args[0]), protoF) {
					st |= 2
				}
			}
			return st, false
		}
		res := map[uint64]bool{}
		q.AtReturn = func(ret *ssa.Return, st uint64, c *PathCtx) { res[st] = true }
		q.Run()
		wantT := strings.HasPrefix(name, "turn")
		rc.Instance("String|"+name, true, map[string]interface{}{"scheme": name, "appends_transport": res[3]})
		if len(res) != 1 || (wantT && !res[3]) || (!wantT && !res[0]) {
			rc.Violation(fn, fn.Pos(), "?transport= for "+name, "String must append ?transport=<proto> exactly for the schemes for which ParseURI accepts it (turn, turns): otherwise String and ParseURI do not round-trip")
		}
	}
}

func checkDialTable(r *Run, rc *RuleCtx, dial *ssa.Function, uc *uriConsts, schemeF, hostF, protoF *types.Var) {
	p := r.P
	errUnsup, _ := p.Stun.Members["ErrUnsupportedURI"].(*ssa.Global)
	newClient := p.Fn("NewClient")
	idx := errorResultIndex(dial)
	schemes := []string{"", "stun", "stuns", "turn", "turns"}
	protos := []string{"", "udp", "tcp"}
	expect := func(s, t string) string {
		switch {
		case s == "stun":
			return "plain udp"
		case s == "turn" && t == "tcp":
			return "plain tcp"
		case s == "turn":
			return "plain udp"
		case s == "turns" && t == "udp":
			return "dtls udp"
		case (s == "turns" || s == "stuns") && t == "tcp":
			return "tls tcp"
		}
		return "unsupported"
	}
	const (
		dUDP = 1 << iota
		dTCP
		dDialUDP
		dDTLS
		dTLS
		dNewNet
	)
	// the error results of the steps DialURI takes (calls returning an error, alone or last in a tuple)
	var stepErrs []ssa.Value
	eachInstr(dial, func(b *ssa.BasicBlock, i int, in ssa.Instruction) {
		cc, ok := in.(*ssa.Call)
		if !ok {
			return
		}
		switch rt := cc.Type().(type) {
		case *types.Tuple:
			if rt.Len() > 0 && isErrorType(rt.At(rt.Len()-1).Type()) {
				for _, u := range *cc.Referrers() {
					if e, isE := u.(*ssa.Extract); isE && e.Index == rt.Len()-1 {
						stepErrs = append(stepErrs, e)
					}
				}
			}
		default:
			if isErrorType(cc.Type()) {
				if sc := cc.Call.StaticCallee(); sc != nil && sc.Pkg != nil && sc.Pkg.Pkg.Path() == "fmt" {
					return
				}
				stepErrs = append(stepErrs, cc)
			}
		}
	})
	for _, s := range schemes {
		for _, t := range protos {
			q := &PathQuery{P: p, Fn: dial, Fold: foldFields(map[*types.Var]int64{schemeF: uc.Scheme[s], protoF: uc.Proto[t]})}
			outcomes := map[string]bool{}
			var badSite ssa.Instruction
			q.Step = func(in ssa.Instruction, deferred bool, st uint64, c *PathCtx) (uint64, bool) {
				cc, ok := in.(*ssa.Call)
				if !ok {
					return st, false
				}
				if cc.Call.IsInvoke() && cc.Call.Method.Name() == "Dial" && len(cc.Call.Args) == 2 {
					nw, _ := constString(c.Resolve(cc.Call.Args[0]))
					switch nw {
					case "udp":
						st |= dUDP
					case "tcp":
						st |= dTCP
					default:
						outcomes["dial of unknown network "+exprDepth(cc.Call.Args[0], 0)] = true
					}
				}
				if cc.Call.IsInvoke() && cc.Call.Method.Name() == "DialUDP" {
					st |= dDialUDP
				}
				if isPkgFuncCall(cc, "github.com/pion/dtls/v3", "Client") {
					st |= dDTLS
				}
				if isPkgFuncCall(cc, "crypto/tls", "Client") {
					st |= dTLS
				}
				if newClient != nil && callsFn(cc, newClient) {
					conn := c.Resolve(cc.Call.Args[0])
					kind := connKindCtx(c, conn)
					o := ""
					switch {
					case kind == "raw" && st&dUDP != 0 && st&(dTCP|dTLS|dDTLS) == 0:
						o = "plain udp"
					case kind == "raw" && st&dTCP != 0 && st&(dUDP|dTLS|dDTLS) == 0:
						o = "plain tcp"
					case kind == "dtls" && st&dDialUDP != 0:
						o = "dtls udp"
					case kind == "tls" && st&dTCP != 0 && st&dUDP == 0:
						o = "tls tcp"
					default:
						o = fmt.Sprintf("client over %s connection after dial bits %b", kind, st)
					}
					outcomes[o] = true
					if o != expect(s, t) {
						badSite = in
					}
					return st, true
				}
				return st, false
			}
			q.AtReturn = func(ret *ssa.Return, st uint64, c *PathCtx) {
				v := c.Resolve(deref(c.Resolve(ret.Results[idx])))
				if errUnsup != nil && loadsGlobal(v, errUnsup) {
					if st&(dUDP|dTCP|dDialUDP) != 0 {
						outcomes["unsupported after dialling"] = true
					} else {
						outcomes["unsupported"] = true
					}
				}
				if idx == 1 && len(ret.Results) == 2 && isNilConst(v) && isNilConst(c.Resolve(deref(c.Resolve(ret.Results[0])))) {
					outcomes["returns neither a client nor an error"] = true
					if badSite == nil {
						badSite = ret
					}
					return
				}
				// other error returns (dial/net failures) are not outcomes of the table - but they are taken only
				// when a step has failed: an error return on a path on which every step's error is nil (a test
				// the wrong way round) makes DialURI fail for a URI it has just dialled
				if errUnsup == nil || !loadsGlobal(v, errUnsup) {
					failed := false
					for _, ev := range stepErrs {
						if c.NilState(ev) == -1 {
							failed = true
						}
					}
					if !failed {
						outcomes["error return although no step failed"] = true
						if badSite == nil {
							badSite = ret
						}
					}
				}
			}
			q.Run()
			var ol []string
			for o := range outcomes {
				ol = append(ol, o)
			}
			sort.Strings(ol)
			sn, tn := s, t
			if sn == "" {
				sn = "unknown"
			}
			if tn == "" {
				tn = "unknown"
			}
			want := expect(s, t)
			rc.Instance("DialURI|"+sn+"/"+tn, true, map[string]interface{}{"scheme": sn, "transport": tn, "outcomes": ol, "expected": want})
			if len(ol) != 1 || ol[0] != want {
				pos := dial.Pos()
				if badSite != nil {
					pos = instrPos(badSite)
				}
				why := "DialURI must dial exactly the transport the URI denotes"
				if (s == "stuns" || s == "turns") && strings.Contains(strings.Join(ol, " "), "plain") {
					why = "a secure scheme is dialled in plaintext"
				}
				rc.Violation(dial, pos, fmt.Sprintf("%s/%s -> %v", sn, tn, ol), fmt.Sprintf("expected %q: %s", want, why))
			}
		}
	}
	// the address dialled is the URI's own: JoinHostPort(uri.Host, Itoa(uri.Port)), handed to every dial step
	{
		portF := FieldVar(p.Named("URI"), "Port")
		var joins []*ssa.Call
		eachInstr(dial, func(b *ssa.BasicBlock, i int, in ssa.Instruction) {
			if cc, ok := in.(*ssa.Call); ok && isPkgFuncCall(cc, "net", "JoinHostPort") && len(cc.Call.Args) == 2 {
				joins = append(joins, cc)
			}
		})
		isAddr := func(v ssa.Value) bool {
			for _, j := range joins {
				if v == ssa.Value(j) {
					return true
				}
			}
			return false
		}
		for _, j := range joins {
			okHost := valueIsLoadOfField(j.Call.Args[0], hostF)
			okPort := false
			if it, isC := j.Call.Args[1].(*ssa.Call); isC && isPkgFuncCall(it, "strconv", "Itoa") && len(it.Call.Args) == 1 {
				okPort = valueIsLoadOfField(stripConvs(it.Call.Args[0]), portF)
			}
			rc.Instance("DialURI|address", true, map[string]interface{}{"host_is_uri_host": okHost, "port_is_uri_port": okPort})
			if !okHost || !okPort {
				rc.Violation(dial, instrPos(j), "dial address "+exprDepth(j, 0), "the address dialled is not built from the URI's host and port: the client talks to another endpoint than the URI names")
			}
		}
		if len(joins) > 0 {
			eachInstr(dial, func(b *ssa.BasicBlock, i int, in ssa.Instruction) {
				cc, ok := in.(*ssa.Call)
				if !ok || !cc.Call.IsInvoke() || len(cc.Call.Args) != 2 {
					return
				}
				if n := cc.Call.Method.Name(); n != "Dial" && n != "ResolveUDPAddr" && n != "ResolveTCPAddr" {
					return
				}
				if !isAddr(cc.Call.Args[1]) {
					rc.Violation(dial, instrPos(cc), cc.Call.Method.Name()+" of "+exprDepth(cc.Call.Args[1], 0), "this step does not dial the address built from the URI's host and port")
				}
			})
		}
	}
	// ServerName = Host on a private copy, unconditionally before the Client call
	for _, spec := range []struct{ pkg, what string }{{"crypto/tls", "TLS"}, {"github.com/pion/dtls/v3", "DTLS"}} {
		eachInstr(dial, func(b *ssa.BasicBlock, i int, in ssa.Instruction) {
			cc, ok := in.(*ssa.Call)
			if !ok || !isPkgFuncCall(cc, spec.pkg, "Client") {
				return
			}
			cfgArg := cc.Call.Args[len(cc.Call.Args)-1]
			rc.Instance("DialURI|"+spec.what+" config", true, map[string]string{"config": exprDepth(cfgArg, 0)})
			al, isAlloc := cfgArg.(*ssa.Alloc)
			if !isAlloc {
				rc.Violation(dial, instrPos(cc), spec.what+" config shared with the caller", "the server name is written into the caller's DialConfig: the first host dialled sticks for every later dial through that config (wrong SNI / certificate check)")
				return
			}
			okName := false
			for _, u := range *al.Referrers() {
				fa, ok := u.(*ssa.FieldAddr)
				if !ok {
					continue
				}
				if fv := fieldOfAddr(fa); fv == nil || fv.Name() != "ServerName" {
					continue
				}
				for _, w := range *fa.Referrers() {
					if st, ok := w.(*ssa.Store); ok && st.Addr == ssa.Value(fa) && valueIsLoadOfField(st.Val, hostF) && instrDominates(st, cc) {
						okName = true
					}
				}
			}
			if !okName {
				rc.Violation(dial, instrPos(cc), spec.what+" server name", "ServerName must be set to the URI's host on every path before the handshake (otherwise the certificate is checked against another name, or not at all)")
			}
		})
	}
}

// connKind: where the connection handed to NewClient comes from.
func connKind(v ssa.Value) string { return connKindCtx(nil, v) }

func connKindCtx(c *PathCtx, v ssa.Value) string {
	for i := 0; i < 8; i++ {
		if c != nil {
			v = c.Resolve(v)
		}
		switch x := v.(type) {
		case *ssa.MakeInterface:
			v = x.X
			continue
		case *ssa.ChangeInterface:
			v = x.X
			continue
		case *ssa.Extract:
			if c, ok := x.Tuple.(*ssa.Call); ok {
				if c.Call.IsInvoke() && (c.Call.Method.Name() == "Dial" || c.Call.Method.Name() == "DialUDP") {
					return "raw"
				}
				if isPkgFuncCall(c, "github.com/pion/dtls/v3", "Client") {
					return "dtls"
				}
			}
			return "?"
		case *ssa.Call:
			if isPkgFuncCall(x, "crypto/tls", "Client") {
				return "tls"
			}
			return "?"
		case *ssa.UnOp:
			if d := deref(x); d != ssa.Value(x) {
				v = d
				continue
			}
			return "?"
		}
		return "?"
	}
	return "?"
}

// isStrconvResult: the numeric result of strconv.Atoi / ParseInt / ParseUint (EXT: exact or error).
func isStrconvResult(v ssa.Value) bool {
	e, ok := v.(*ssa.Extract)
	if !ok || e.Index != 0 {
		return false
	}
	c, ok := e.Tuple.(*ssa.Call)
	if !ok {
		return false
	}
	return isPkgFuncCall(c, "strconv", "Atoi") || isPkgFuncCall(c, "strconv", "ParseInt") || isPkgFuncCall(c, "strconv", "ParseUint")
}

// constOfTableLoad: v reads a constant-index element of a read-only package-level array (or a constant key
// of a read-only package-level map): the integer stored there.
func constOfTableLoad(p *Prog, v ssa.Value) (int64, bool) {
	v = stripConvs(v)
	tabs := p.readOnlyGlobalTables()
	entry := func(t *globalTable, key ssa.Value) (int64, bool) {
		kc, ok := key.(*ssa.Const)
		if !ok || kc.Value == nil {
			return 0, false
		}
		e, have := t.entries[kc.Value.ExactString()]
		if !have {
			e = t.zero
		}
		if e == nil || e.Kind() != constant.Int {
			return 0, false
		}
		iv, exact := constant.Int64Val(e)
		return iv, exact
	}
	switch x := v.(type) {
	case *ssa.UnOp:
		if x.Op != token.MUL {
			return 0, false
		}
		ia, ok := x.X.(*ssa.IndexAddr)
		if !ok {
			return 0, false
		}
		g, isG := ia.X.(*ssa.Global)
		if !isG || tabs[g] == nil || tabs[g].length < 0 {
			return 0, false
		}
		if idx, isC := constInt(ia.Index); !isC || idx < 0 || idx >= tabs[g].length {
			return 0, false
		}
		return entry(tabs[g], ia.Index)
	case *ssa.Lookup:
		if x.CommaOk {
			return 0, false
		}
		if t := lookupTable(tabs, x.X); t != nil {
			return entry(t, x.Index)
		}
	}
	return 0, false
}
