package main

import (
	"go/token"
	"go/types"
	"sort"
	"strings"

	"golang.org/x/tools/go/ssa"
)

// LOCK engine: forward must-lockset over the instruction CFG.

// lockKeyer produces object identities for mutex addresses; loads of fields are
// treated as stable within one function (struct fields holding mutexes / conds are
// assigned only at construction - checked by the callers' construction rules).
func lockObjKey(v ssa.Value) string {
	switch x := v.(type) {
	case *ssa.Parameter:
		return x.Name()
	case *ssa.FreeVar:
		return x.Name()
	case *ssa.Global:
		return x.Name()
	case *ssa.FieldAddr:
		fv := fieldOfAddr(x)
		n := "?"
		if fv != nil {
			n = fv.Name()
		}
		return lockObjKey(x.X) + "." + n
	case *ssa.Field:
		n := "?"
		if st, ok := x.X.Type().Underlying().(*types.Struct); ok {
			n = st.Field(x.Field).Name()
		}
		return lockObjKey(x.X) + "." + n
	case *ssa.UnOp:
		if x.Op == token.MUL {
			return lockObjKey(x.X)
		}
	case *ssa.ChangeType:
		return lockObjKey(x.X)
	case *ssa.MakeInterface:
		return lockObjKey(x.X)
	case *ssa.Alloc:
		return "new#" + x.Name()
	case *ssa.Phi:
		return "phi#" + x.Name()
	}
	return "v#" + v.Name()
}

// lockClass names the lock by the struct type and field path it lives in ("Agent.mux").
func lockClass(v ssa.Value) string {
	switch x := v.(type) {
	case *ssa.FieldAddr:
		fv := fieldOfAddr(x)
		pt, _ := x.X.Type().Underlying().(*types.Pointer)
		tn := "?"
		if pt != nil {
			if n, ok := pt.Elem().(*types.Named); ok {
				tn = n.Obj().Name()
			}
		}
		inner := lockClassInner(x.X)
		if inner != "" {
			return inner + "." + fv.Name()
		}
		return tn + "." + fv.Name()
	case *ssa.UnOp:
		if x.Op == token.MUL {
			return lockClass(x.X)
		}
	case *ssa.ChangeType:
		return lockClass(x.X)
	case *ssa.MakeInterface:
		return lockClass(x.X)
	case *ssa.Field:
		if st, ok := x.X.Type().Underlying().(*types.Struct); ok {
			n := "?"
			if nn, ok := x.X.Type().(*types.Named); ok {
				n = nn.Obj().Name()
			}
			return n + "." + st.Field(x.Field).Name()
		}
	}
	return "?"
}

// lockClassInner: for s.cond.L the base of the FieldAddr L is a load of s.cond.
func lockClassInner(v ssa.Value) string {
	if u, ok := v.(*ssa.UnOp); ok && u.Op == token.MUL {
		if fa, ok := u.X.(*ssa.FieldAddr); ok {
			return lockClass(fa)
		}
	}
	return ""
}

type lockOp struct {
	Kind  string // "Lock","Unlock","RLock","RUnlock"
	Obj   string // object key
	Class string
	Recv  ssa.Value
}

// lockOpOf classifies a call instruction as a mutex operation.
func lockOpOf(in ssa.Instruction) *lockOp {
	ci, ok := in.(ssa.CallInstruction)
	if !ok {
		return nil
	}
	cc := ci.Common()
	var name string
	var recv ssa.Value
	if cc.IsInvoke() {
		// sync.Locker
		n, ok := cc.Value.Type().(*types.Named)
		if !ok || n.Obj().Pkg() == nil || n.Obj().Pkg().Path() != "sync" || n.Obj().Name() != "Locker" {
			return nil
		}
		name = cc.Method.Name()
		recv = cc.Value
	} else {
		f := cc.StaticCallee()
		if f == nil || f.Signature.Recv() == nil || f.Pkg == nil || f.Pkg.Pkg.Path() != "sync" {
			return nil
		}
		rt := f.Signature.Recv().Type()
		if pt, ok := rt.(*types.Pointer); ok {
			rt = pt.Elem()
		}
		n, ok := rt.(*types.Named)
		if !ok || (n.Obj().Name() != "Mutex" && n.Obj().Name() != "RWMutex") {
			return nil
		}
		name = f.Name()
		if len(cc.Args) == 0 {
			return nil
		}
		recv = cc.Args[0]
	}
	switch name {
	case "Lock", "Unlock", "RLock", "RUnlock":
	default:
		return nil
	}
	return &lockOp{Kind: name, Obj: lockObjKey(recv), Class: lockClass(recv), Recv: recv}
}

// LockInfo holds the must-lockset before every instruction of a function.
type LockInfo struct {
	Fn     *ssa.Function
	before map[ssa.Instruction]map[string]string // held: obj -> mode ("W"/"R")
	Ops    []ssa.Instruction                     // all lock operations (incl. defers)
}

func copySet(m map[string]string) map[string]string {
	o := make(map[string]string, len(m))
	for k, v := range m {
		o[k] = v
	}
	return o
}

func meet(a, b map[string]string) map[string]string {
	o := map[string]string{}
	for k, v := range a {
		if w, ok := b[k]; ok {
			if v == w {
				o[k] = v
			} else {
				o[k] = "R" // held at least in read mode
			}
		}
	}
	return o
}

func setEq(a, b map[string]string) bool {
	if len(a) != len(b) {
		return false
	}
	for k, v := range a {
		if b[k] != v {
			return false
		}
	}
	return true
}

func applyLockOp(set map[string]string, op *lockOp) {
	switch op.Kind {
	case "Lock":
		set[op.Obj] = "W"
	case "RLock":
		if set[op.Obj] != "W" {
			set[op.Obj] = "R"
		}
	case "Unlock", "RUnlock":
		delete(set, op.Obj)
	}
}

func computeLocks(fn *ssa.Function) *LockInfo { return computeLocksMode(fn, false) }

// computeLocksMay: the locks that MAY be held (on some path) before each instruction: union at joins.
// Used by the no-blocking-call rules: a call that can run with the mutex held on one path is enough.
func computeLocksMay(fn *ssa.Function) *LockInfo { return computeLocksMode(fn, true) }

func join(a, b map[string]string) map[string]string {
	o := copySet(a)
	for k, v := range b {
		if w, ok := o[k]; !ok || (w == "R" && v == "W") {
			o[k] = v
		}
	}
	return o
}

func computeLocksMode(fn *ssa.Function, may bool) *LockInfo {
	li := &LockInfo{Fn: fn, before: map[ssa.Instruction]map[string]string{}}
	if len(fn.Blocks) == 0 {
		return li
	}
	// deferred lock ops registered on all paths to a rundefers: those whose Defer dominates it
	var defers []*ssa.Defer
	eachInstr(fn, func(b *ssa.BasicBlock, i int, in ssa.Instruction) {
		if d, ok := in.(*ssa.Defer); ok {
			defers = append(defers, d)
		}
		if lockOpOf(in) != nil {
			li.Ops = append(li.Ops, in)
		}
	})
	transfer := func(b *ssa.BasicBlock, s map[string]string, record bool) map[string]string {
		s = copySet(s)
		for _, ins := range b.Instrs {
			if record {
				li.before[ins] = copySet(s)
			}
			switch x := ins.(type) {
			case *ssa.Defer:
				// registration has no effect now
			case *ssa.RunDefers:
				for j := len(defers) - 1; j >= 0; j-- {
					d := defers[j]
					if instrDominates(d, x) {
						if op := lockOpOf(d); op != nil {
							applyLockOp(s, op)
						}
					}
				}
			case *ssa.Go:
			default:
				if op := lockOpOf(ins); op != nil {
					applyLockOp(s, op)
				}
			}
		}
		return s
	}
	// iterate to fixpoint over the split graph (thread.go); top = nil (unvisited)
	type node struct {
		blk   *ssa.BasicBlock
		preds []int
	}
	var nodes []node
	entry := 0
	if t := threadedCFG(fn); t.changed {
		for id, n := range t.nodes {
			nodes = append(nodes, node{n.blk, t.pred[id]})
		}
		entry = t.nodeOf[fn.Blocks[0]][0]
	} else {
		idx := map[*ssa.BasicBlock]int{}
		for i, b := range fn.Blocks {
			idx[b] = i
		}
		for _, b := range fn.Blocks {
			var ps []int
			for _, p := range b.Preds {
				ps = append(ps, idx[p])
			}
			nodes = append(nodes, node{b, ps})
		}
	}
	in := map[int]map[string]string{}
	out := map[int]map[string]string{}
	in[entry] = map[string]string{}
	changed := true
	for iter := 0; changed && iter < 100; iter++ {
		changed = false
		for id, n := range nodes {
			var cur map[string]string
			if id == entry {
				cur = map[string]string{}
			} else {
				first := true
				for _, p := range n.preds {
					po, ok := out[p]
					if !ok {
						continue
					}
					if first {
						cur = copySet(po)
						first = false
					} else if may {
						cur = join(cur, po)
					} else {
						cur = meet(cur, po)
					}
				}
				if first {
					continue // unreachable so far
				}
			}
			in[id] = cur
			no := transfer(n.blk, cur, false)
			if old, ok := out[id]; !ok || !setEq(old, no) {
				out[id] = no
				changed = true
			}
		}
	}
	// per block: the meet over its reachable copies
	blockIn := map[*ssa.BasicBlock]map[string]string{}
	for id, n := range nodes {
		s, ok := in[id]
		if !ok {
			continue
		}
		if cur, seen := blockIn[n.blk]; seen {
			if may {
				blockIn[n.blk] = join(cur, s)
			} else {
				blockIn[n.blk] = meet(cur, s)
			}
		} else {
			blockIn[n.blk] = copySet(s)
		}
	}
	for _, b := range fn.Blocks {
		if s, ok := blockIn[b]; ok {
			transfer(b, s, true)
		}
	}
	return li
}

// Held returns the lockset before the instruction ("obj" -> mode).
func (li *LockInfo) Held(in ssa.Instruction) map[string]string {
	return li.before[in]
}

func heldString(m map[string]string) string {
	var ks []string
	for k, v := range m {
		ks = append(ks, v+":"+k)
	}
	sort.Strings(ks)
	return "{" + strings.Join(ks, ",") + "}"
}
