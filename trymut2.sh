#!/bin/bash
# usage: trymut2.sh <patch> <prop[,prop]|all> [tier] -- like trymut.sh but on a scratch copy of /repo (never touches /repo);
# uses $STUNLINT (default /verif/bin/stunlint)
set -u
patch=$(readlink -f "$1"); props=$2; tier=${3:-quick}
bin=${STUNLINT:-/verif/bin/stunlint}
d=$(mktemp -d /tmp/tm2.XXXXXX)
trap 'rm -rf "$d"' EXIT
rsync -a --exclude .git /repo/ "$d/"
cd "$d" || exit 2
git apply "$patch" || { echo "patch does not apply"; exit 2; }
"$bin" -repo "$d" -verif /verif -prop "$props" -tier "$tier" -no-evidence | grep -v '^  (also' | cut -c1-400
rc=${PIPESTATUS[0]}
echo "exit=$rc"
