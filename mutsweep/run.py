#!/usr/bin/env python3
"""Mutation sweep: for every mutant of mutgen, (1) build in both tag configurations, (2) run the checker (all
properties, quick tier) on a scratch copy, (3) for mutants no rule reports, run the test suite to see whether the
tests kill it.  Output: JSON lines.  Test tooling for the checker - not part of any registered check.
usage: run.py <muts.json> <out.jsonl> [workers] [stunlint binary]"""
import json, os, subprocess, sys, shutil, re, threading, queue
ENV=dict(os.environ, GOFLAGS="-mod=mod", GOPROXY="off", GOSUMDB="off", GOTOOLCHAIN="local"); ENV.pop("GOWORK",None)
muts=json.load(open(sys.argv[1])); outp=sys.argv[2]
nw=int(sys.argv[3]) if len(sys.argv)>3 else 5
binp=sys.argv[4] if len(sys.argv)>4 else "/verif/bin/stunlint"
done=set()
if os.path.exists(outp):
    for l in open(outp):
        try: done.add(json.loads(l)["id"])
        except Exception: pass
q=queue.Queue()
for m in muts:
    if m["id"] not in done: q.put(m)
lock=threading.Lock()
def sh(cmd,cwd,timeout):
    try:
        r=subprocess.run(cmd,cwd=cwd,env=ENV,shell=True,capture_output=True,text=True,timeout=timeout)
        return r.returncode,r.stdout+r.stderr
    except subprocess.TimeoutExpired:
        return 124,"TIMEOUT"
def worker(i):
    base=os.environ.get("MUTS_DIR","/tmp/ms"); d=f"{base}/w{i}"
    shutil.rmtree(d,ignore_errors=True); os.makedirs(base,exist_ok=True)
    subprocess.run(f"rsync -a --exclude .git /repo/ {d}/",shell=True,check=True)
    while True:
        try: m=q.get_nowait()
        except queue.Empty: break
        path=os.path.join(d,m["file"]); orig=open(os.path.join("/repo",m["file"]),"rb").read()
        res=dict(m)
        try:
            open(path,"wb").write(orig[:m["start"]]+m["repl"].encode()+orig[m["end"]:])
            rc,out=sh("go build . ./internal/... && go build -tags debug . ./internal/...",d,300)
            if rc!=0:
                res["status"]="BUILD"
            else:
                rc,out=sh(f"{binp} -repo {d} -verif /verif -prop all -tier quick -no-evidence",d,600)
                rules=sorted(set(re.findall(r"\[(C\d\d\.[a-z0-9]+)\]","\n".join(l for l in out.splitlines() if not l.startswith("KNOWN")))))
                if rules or rc!=0:
                    res["status"]="DETECTED"; res["rules"]=rules
                    if not rules: res["out"]=out[-400:]
                elif os.environ.get("MUTS_NOSUITE"):
                    res["status"]="UNDETECTED"
                else:
                    rc1,o1=sh("go test -vet=off -count=1 -timeout 60s . ./internal/...",d,150)
                    if rc1==0:
                        rc2,o2=sh("go test -vet=off -count=1 -tags debug -timeout 60s . ./internal/...",d,150)
                    else: rc2=None
                    if rc1==0 and rc2==0: res["status"]="SURVIVED"
                    else:
                        res["status"]="KILLED"
        except Exception as e:
            res["status"]="ERROR"; res["err"]=str(e)
        finally:
            open(path,"wb").write(orig)
        with lock:
            with open(outp,"a") as f: f.write(json.dumps(res)+"\n")
    shutil.rmtree(d,ignore_errors=True)
ts=[threading.Thread(target=worker,args=(i,)) for i in range(nw)]
[t.start() for t in ts]; [t.join() for t in ts]
print("done")
