module retgen

go 1.23
