// retgen: third mutant family - an error result replaced by nil (the error swallowed), and a branch condition
// replaced by true / false (the guard forced one way). Same output format as mutgen. Test tooling for the checker.
package main

import (
	"encoding/json"
	"fmt"
	"go/ast"
	"go/parser"
	"go/token"
	"os"
	"path/filepath"
	"strings"
)

type Mut struct {
	ID    string `json:"id"`
	File  string `json:"file"`
	Line  int    `json:"line"`
	Func  string `json:"func"`
	Kind  string `json:"kind"`
	Desc  string `json:"desc"`
	Start int    `json:"start"`
	End   int    `json:"end"`
	Repl  string `json:"repl"`
}

func main() {
	root := os.Args[1]
	var files []string
	for _, pat := range []string{"*.go", "internal/hmac/*.go"} {
		m, _ := filepath.Glob(filepath.Join(root, pat))
		for _, f := range m {
			if !strings.HasSuffix(f, "_test.go") {
				files = append(files, f)
			}
		}
	}
	var out []Mut
	for _, path := range files {
		src, _ := os.ReadFile(path)
		fset := token.NewFileSet()
		f, err := parser.ParseFile(fset, path, src, 0)
		if err != nil {
			panic(err)
		}
		rel, _ := filepath.Rel(root, path)
		off := func(p token.Pos) int { return fset.Position(p).Offset }
		text := func(n ast.Node) string { return string(src[off(n.Pos()):off(n.End())]) }
		short := func(s string) string {
			s = strings.Join(strings.Fields(s), " ")
			if len(s) > 90 {
				s = s[:90] + "…"
			}
			return s
		}
		n := 0
		add := func(fn string, at token.Pos, kind, desc string, s, e int, repl string) {
			n++
			out = append(out, Mut{ID: fmt.Sprintf("%s$%d", rel, n), File: rel, Line: fset.Position(at).Line, Func: fn, Kind: kind, Desc: desc, Start: s, End: e, Repl: repl})
		}
		for _, d := range f.Decls {
			fd, ok := d.(*ast.FuncDecl)
			if !ok || fd.Body == nil {
				continue
			}
			fname := fd.Name.Name
			if fd.Recv != nil && len(fd.Recv.List) > 0 {
				t := fd.Recv.List[0].Type
				if st, isStar := t.(*ast.StarExpr); isStar {
					t = st.X
				}
				if id, isId := t.(*ast.Ident); isId {
					fname = id.Name + "." + fname
				}
			}
			lastIsError := false
			if fd.Type.Results != nil && len(fd.Type.Results.List) > 0 {
				lt := fd.Type.Results.List[len(fd.Type.Results.List)-1].Type
				if id, isId := lt.(*ast.Ident); isId && id.Name == "error" {
					lastIsError = true
				}
			}
			var walk func(nd ast.Node, inLit bool)
			walk = func(nd ast.Node, inLit bool) {
				ast.Inspect(nd, func(x ast.Node) bool {
					switch y := x.(type) {
					case *ast.FuncLit:
						if !inLit {
							walk(y.Body, true)
							return false
						}
					case *ast.ReturnStmt:
						if !inLit && lastIsError && len(y.Results) > 0 {
							last := y.Results[len(y.Results)-1]
							if id, isId := last.(*ast.Ident); !isId || id.Name != "nil" {
								add(fname, y.Pos(), "RETNIL", "error swallowed: "+short(text(y)), off(last.Pos()), off(last.End()), "nil")
							}
						}
					case *ast.IfStmt:
						if id, isId := y.Cond.(*ast.Ident); isId && (id.Name == "true" || id.Name == "false") {
							return true
						}
						add(fname, y.Cond.Pos(), "CONDTRUE", "if true instead of: "+short(text(y.Cond)), off(y.Cond.Pos()), off(y.Cond.End()), "true")
						add(fname, y.Cond.Pos(), "CONDFALSE", "if false instead of: "+short(text(y.Cond)), off(y.Cond.Pos()), off(y.Cond.End()), "false")
					case *ast.ForStmt:
						if y.Cond != nil {
							add(fname, y.Cond.Pos(), "CONDFALSE", "loop never entered: "+short(text(y.Cond)), off(y.Cond.Pos()), off(y.Cond.End()), "false")
						}
					}
					return true
				})
			}
			walk(fd.Body, false)
		}
	}
	enc := json.NewEncoder(os.Stdout)
	enc.SetIndent("", " ")
	_ = enc.Encode(out)
	fmt.Fprintln(os.Stderr, len(out), "mutants")
}
