// mutgen: enumerate small source mutants (statement deletion, adjacent swap, operator / literal / sibling
// identifier replacement, negated condition) of the library files of pion/stun as byte-range edits.
// Test tooling for the checker (see README.md); not part of any registered check.
package main

import (
	"encoding/json"
	"fmt"
	"go/ast"
	"go/parser"
	"go/token"
	"os"
	"path/filepath"
	"strconv"
	"strings"
)

type Mut struct {
	ID    string `json:"id"`
	File  string `json:"file"`
	Line  int    `json:"line"`
	Func  string `json:"func"`
	Kind  string `json:"kind"`
	Desc  string `json:"desc"`
	Start int    `json:"start"`
	End   int    `json:"end"`
	Repl  string `json:"repl"`
}

var opSwap = map[token.Token][]string{
	token.EQL: {"!="}, token.NEQ: {"=="},
	token.LSS: {"<=", ">"}, token.LEQ: {"<", ">="}, token.GTR: {">=", "<"}, token.GEQ: {">", "<="},
	token.ADD: {"-"}, token.SUB: {"+"}, token.LAND: {"||"}, token.LOR: {"&&"},
	token.AND: {"|"}, token.OR: {"&"}, token.SHL: {">>"}, token.SHR: {"<<"}, token.REM: {"/"}, token.QUO: {"%"}, token.MUL: {"+"},
}

var identSwap = map[string][]string{
	"Lock": {"RLock"}, "RLock": {"Lock"}, "Unlock": {"RUnlock"}, "RUnlock": {"Unlock"},
	"true": {"false"}, "false": {"true"},
	"WriteLength": {"WriteHeader"}, "WriteHeader": {"WriteLength"}, "WriteType": {"WriteLength"},
	"len": {"cap"}, "cap": {"len"},
	"Uint16": {"Uint32"}, "PutUint16": {"PutUint32"},
	"LoadInt32": {"LoadInt64"}, "Before": {"After"}, "After": {"Before"},
	"Broadcast": {"Signal"}, "Add": {"Get"},
}

func main() {
	root := os.Args[1]
	var files []string
	for _, pat := range []string{"*.go", "internal/hmac/*.go"} {
		m, _ := filepath.Glob(filepath.Join(root, pat))
		for _, f := range m {
			if !strings.HasSuffix(f, "_test.go") {
				files = append(files, f)
			}
		}
	}
	var out []Mut
	for _, path := range files {
		src, _ := os.ReadFile(path)
		fset := token.NewFileSet()
		f, err := parser.ParseFile(fset, path, src, parser.ParseComments)
		if err != nil {
			panic(err)
		}
		rel, _ := filepath.Rel(root, path)
		off := func(p token.Pos) int { return fset.Position(p).Offset }
		text := func(n ast.Node) string { return string(src[off(n.Pos()):off(n.End())]) }
		n := 0
		add := func(fn string, at token.Pos, kind, desc string, s, e int, repl string) {
			n++
			out = append(out, Mut{ID: fmt.Sprintf("%s#%d", rel, n), File: rel, Line: fset.Position(at).Line, Func: fn, Kind: kind, Desc: desc, Start: s, End: e, Repl: repl})
		}
		short := func(s string) string {
			s = strings.Join(strings.Fields(s), " ")
			if len(s) > 90 {
				s = s[:90] + "…"
			}
			return s
		}
		for _, d := range f.Decls {
			fd, ok := d.(*ast.FuncDecl)
			var fname string
			var scope ast.Node = d
			if ok {
				fname = fd.Name.Name
				if fd.Recv != nil && len(fd.Recv.List) > 0 {
					t := fd.Recv.List[0].Type
					if st, isStar := t.(*ast.StarExpr); isStar {
						t = st.X
					}
					if id, isId := t.(*ast.Ident); isId {
						fname = id.Name + "." + fname
					}
				}
				if fd.Body == nil {
					continue
				}
			} else {
				fname = "<decl>"
				gd := d.(*ast.GenDecl)
				if gd.Tok == token.IMPORT || gd.Tok == token.TYPE {
					continue
				}
			}
			stmtLists := func(n ast.Node) []ast.Stmt {
				switch x := n.(type) {
				case *ast.BlockStmt:
					return x.List
				case *ast.CaseClause:
					return x.Body
				case *ast.CommClause:
					return x.Body
				}
				return nil
			}
			ast.Inspect(scope, func(nd ast.Node) bool {
				if nd == nil {
					return false
				}
				if list := stmtLists(nd); list != nil {
					for i, s := range list {
						del := false
						switch y := s.(type) {
						case *ast.ExprStmt, *ast.IncDecStmt, *ast.DeferStmt, *ast.GoStmt, *ast.SendStmt, *ast.BranchStmt, *ast.ReturnStmt:
							del = true
						case *ast.AssignStmt:
							del = y.Tok != token.DEFINE
						case *ast.IfStmt:
							del = y.Else == nil && len(y.Body.List) <= 3
						case *ast.ForStmt, *ast.RangeStmt:
							del = true
						}
						if del {
							add(fname, s.Pos(), "DEL", "delete: "+short(text(s)), off(s.Pos()), off(s.End()), "")
						}
						if i+1 < len(list) {
							a, b := list[i], list[i+1]
							if _, isDecl := a.(*ast.DeclStmt); !isDecl {
								add(fname, a.Pos(), "SWAP", "swap: "+short(text(a))+" <-> "+short(text(b)), off(a.Pos()), off(b.End()), text(b)+"\n"+text(a))
							}
						}
						// move a statement following an if into the end of its body / out of it
						if ifs, isIf := s.(*ast.IfStmt); isIf && ifs.Else == nil && i+1 < len(list) && len(ifs.Body.List) > 0 {
							nx := list[i+1]
							if _, isDecl := nx.(*ast.DeclStmt); !isDecl {
								last := ifs.Body.List[len(ifs.Body.List)-1]
								if _, isRet := last.(*ast.ReturnStmt); isRet {
									// move the statement in front of the return inside the body
									add(fname, nx.Pos(), "MOVEIN", "move into if (before its return): "+short(text(nx)), off(last.Pos()), off(nx.End()),
										text(nx)+"\n"+string(src[off(last.Pos()):off(nx.Pos())]))
								}
							}
						}
						if ifs, isIf := s.(*ast.IfStmt); isIf && ifs.Else == nil && i > 0 {
							pv := list[i-1]
							switch pv.(type) {
							case *ast.ExprStmt, *ast.AssignStmt, *ast.IncDecStmt:
								if as, isAs := pv.(*ast.AssignStmt); !isAs || as.Tok != token.DEFINE {
									// move the previous statement to after the if
									add(fname, pv.Pos(), "MOVEAFTER", "move below the following if: "+short(text(pv)), off(pv.Pos()), off(ifs.End()),
										string(src[off(ifs.Pos()):off(ifs.End())])+"\n"+text(pv))
								}
							}
						}
					}
				}
				switch x := nd.(type) {
				case *ast.BinaryExpr:
					for _, r := range opSwap[x.Op] {
						add(fname, x.OpPos, "OP", fmt.Sprintf("%s -> %s in: %s", x.Op, r, short(text(x))), off(x.OpPos), off(x.OpPos)+len(x.Op.String()), r)
					}
				case *ast.AssignStmt:
					switch x.Tok {
					case token.ADD_ASSIGN:
						add(fname, x.TokPos, "OP", "+= -> -= in: "+short(text(x)), off(x.TokPos), off(x.TokPos)+2, "-=")
						add(fname, x.TokPos, "OP", "+= -> = in: "+short(text(x)), off(x.TokPos), off(x.TokPos)+2, "=")
					case token.SUB_ASSIGN:
						add(fname, x.TokPos, "OP", "-= -> += in: "+short(text(x)), off(x.TokPos), off(x.TokPos)+2, "+=")
					}
				case *ast.IncDecStmt:
					if x.Tok == token.INC {
						add(fname, x.TokPos, "OP", "++ -> -- in: "+short(text(x)), off(x.TokPos), off(x.TokPos)+2, "--")
					}
				case *ast.BasicLit:
					if x.Kind == token.INT {
						if v, err := strconv.ParseInt(x.Value, 0, 64); err == nil {
							add(fname, x.Pos(), "NUM", fmt.Sprintf("%s -> %d", x.Value, v+1), off(x.Pos()), off(x.End()), strconv.FormatInt(v+1, 10))
							if v > 0 {
								add(fname, x.Pos(), "NUM", fmt.Sprintf("%s -> %d", x.Value, v-1), off(x.Pos()), off(x.End()), strconv.FormatInt(v-1, 10))
							}
						}
					}
				case *ast.UnaryExpr:
					if x.Op == token.NOT {
						add(fname, x.Pos(), "NEG", "drop !: "+short(text(x)), off(x.OpPos), off(x.OpPos)+1, "")
					}
				case *ast.IfStmt:
					if _, isBin := x.Cond.(*ast.BinaryExpr); !isBin {
						if _, isNot := x.Cond.(*ast.UnaryExpr); !isNot {
							add(fname, x.Cond.Pos(), "NEG", "negate: "+short(text(x.Cond)), off(x.Cond.Pos()), off(x.Cond.End()), "!("+text(x.Cond)+")")
						}
					}
				case *ast.Ident:
					for _, r := range identSwap[x.Name] {
						add(fname, x.Pos(), "IDENT", x.Name+" -> "+r, off(x.Pos()), off(x.End()), r)
					}
				case *ast.CallExpr:
					// swap the first two arguments when there are exactly two or three
					if len(x.Args) >= 2 && len(x.Args) <= 3 {
						a, b := x.Args[0], x.Args[1]
						add(fname, x.Pos(), "ARGS", "swap arguments in: "+short(text(x)), off(a.Pos()), off(b.End()), text(b)+string(src[off(a.End()):off(b.Pos())])+text(a))
					}
				case *ast.SliceExpr:
					if x.Low != nil && x.High == nil {
						add(fname, x.Pos(), "SLICE", "x[a:] -> x[:a] in: "+short(text(x)), off(x.Low.Pos()), off(x.Rbrack), ":"+text(x.Low))
					}
				}
				return true
			})
		}
	}
	enc := json.NewEncoder(os.Stdout)
	enc.SetIndent("", " ")
	_ = enc.Encode(out)
	fmt.Fprintln(os.Stderr, len(out), "mutants")
}
