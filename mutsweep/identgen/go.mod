module identgen

go 1.23

require golang.org/x/tools v0.29.0

require (
	golang.org/x/mod v0.22.0 // indirect
	golang.org/x/sync v0.10.0 // indirect
)
