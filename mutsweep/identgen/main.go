// identgen: the second mutant family of the sweep - an identifier replaced by another object of the identical type
// that is in scope at that point (a local, a parameter, at most one package-level name), and a selected field
// replaced by a sibling field of the identical type. Same output format as mutgen. Test tooling for the checker.
package main

import (
	"encoding/json"
	"fmt"
	"go/ast"
	"go/token"
	"go/types"
	"os"
	"path/filepath"
	"sort"
	"strings"

	"golang.org/x/tools/go/packages"
)

type Mut struct {
	ID    string `json:"id"`
	File  string `json:"file"`
	Line  int    `json:"line"`
	Func  string `json:"func"`
	Kind  string `json:"kind"`
	Desc  string `json:"desc"`
	Start int    `json:"start"`
	End   int    `json:"end"`
	Repl  string `json:"repl"`
}

func main() {
	root := os.Args[1]
	cfg := &packages.Config{Mode: packages.LoadSyntax, Dir: root, Env: append(os.Environ(), "GOFLAGS=-mod=mod", "GOPROXY=off", "GOSUMDB=off", "GOTOOLCHAIN=local", "GOWORK=off")}
	pkgs, err := packages.Load(cfg, ".", "./internal/hmac")
	if err != nil {
		panic(err)
	}
	var out []Mut
	for _, pk := range pkgs {
		if len(pk.Errors) > 0 {
			panic(pk.Errors[0])
		}
		info := pk.TypesInfo
		for _, f := range pk.Syntax {
			path := pk.Fset.Position(f.Pos()).Filename
			if strings.HasSuffix(path, "_test.go") {
				continue
			}
			rel, _ := filepath.Rel(root, path)
			off := func(p token.Pos) int { return pk.Fset.Position(p).Offset }
			n := 0
			add := func(fn string, at token.Pos, kind, desc string, s, e int, repl string) {
				n++
				out = append(out, Mut{ID: fmt.Sprintf("%s@%d", rel, n), File: rel, Line: pk.Fset.Position(at).Line, Func: fn, Kind: kind, Desc: desc, Start: s, End: e, Repl: repl})
			}
			for _, d := range f.Decls {
				fd, ok := d.(*ast.FuncDecl)
				if !ok || fd.Body == nil {
					continue
				}
				fname := fd.Name.Name
				if fd.Recv != nil && len(fd.Recv.List) > 0 {
					t := fd.Recv.List[0].Type
					if st, isStar := t.(*ast.StarExpr); isStar {
						t = st.X
					}
					if id, isId := t.(*ast.Ident); isId {
						fname = id.Name + "." + fname
					}
				}
				// identifiers that are selector fields or definitions are skipped
				skip := map[*ast.Ident]bool{}
				ast.Inspect(fd.Body, func(nd ast.Node) bool {
					switch x := nd.(type) {
					case *ast.SelectorExpr:
						skip[x.Sel] = true
						// sibling field of the identical type
						if sel, ok := info.Selections[x]; ok && sel.Kind() == types.FieldVal {
							fv := sel.Obj().(*types.Var)
							rt := sel.Recv()
							if pt, isP := rt.Underlying().(*types.Pointer); isP {
								rt = pt.Elem()
							}
							if st, isS := rt.Underlying().(*types.Struct); isS {
								k := 0
								for i := 0; i < st.NumFields() && k < 2; i++ {
									g := st.Field(i)
									if g != fv && !g.Embedded() && types.Identical(g.Type(), fv.Type()) && (g.Exported() || g.Pkg() == pk.Types) {
										add(fname, x.Sel.Pos(), "FIELD", fmt.Sprintf("field %s -> %s", fv.Name(), g.Name()), off(x.Sel.Pos()), off(x.Sel.End()), g.Name())
										k++
									}
								}
							}
						}
					case *ast.KeyValueExpr:
						if id, ok := x.Key.(*ast.Ident); ok {
							skip[id] = true
						}
					}
					return true
				})
				ast.Inspect(fd.Body, func(nd ast.Node) bool {
					id, ok := nd.(*ast.Ident)
					if !ok || skip[id] || id.Name == "_" {
						return true
					}
					obj := info.Uses[id]
					if obj == nil {
						return true
					}
					switch obj.(type) {
					case *types.Var, *types.Const:
					default:
						return true
					}
					if _, isNil := obj.(*types.Nil); isNil {
						return true
					}
					if b, isB := obj.Type().Underlying().(*types.Basic); isB && b.Info()&types.IsUntyped != 0 {
						return true
					}
					// candidates: walk the scopes outwards
					sc := pk.Types.Scope().Innermost(id.Pos())
					var local, global []types.Object
					seen := map[string]bool{id.Name: true}
					for s := sc; s != nil; s = s.Parent() {
						names := s.Names()
						sort.Strings(names)
						for _, nm := range names {
							o := s.Lookup(nm)
							if seen[nm] || nm == "_" {
								continue
							}
							switch o.(type) {
							case *types.Var, *types.Const:
							default:
								continue
							}
							if !types.Identical(o.Type(), obj.Type()) {
								continue
							}
							if s != pk.Types.Scope() && s != types.Universe {
								if o.Pos() >= id.Pos() {
									continue // declared later
								}
								local = append(local, o)
							} else if s == pk.Types.Scope() {
								global = append(global, o)
							}
							seen[nm] = true
						}
					}
					k := 0
					for _, o := range local {
						if k >= 3 {
							break
						}
						add(fname, id.Pos(), "IDENT2", fmt.Sprintf("%s -> %s", id.Name, o.Name()), off(id.Pos()), off(id.End()), o.Name())
						k++
					}
					if len(global) > 0 {
						// the package-level name declared nearest to the one used (a neighbouring constant)
						best := global[0]
						dist := func(o types.Object) int {
							d := int(o.Pos()) - int(obj.Pos())
							if d < 0 {
								d = -d
							}
							return d
						}
						for _, o := range global[1:] {
							if dist(o) < dist(best) {
								best = o
							}
						}
						add(fname, id.Pos(), "IDENT2", fmt.Sprintf("%s -> %s", id.Name, best.Name()), off(id.Pos()), off(id.End()), best.Name())
					}
					return true
				})
			}
		}
	}
	enc := json.NewEncoder(os.Stdout)
	enc.SetIndent("", " ")
	_ = enc.Encode(out)
	fmt.Fprintln(os.Stderr, len(out), "mutants")
}
