#!/usr/bin/env python3
"""mkpatch.py <muts.json> <mutant id> : print the mutant as a patch (git apply-able, -p1)."""
import json, sys, difflib
muts={m["id"]:m for m in json.load(open(sys.argv[1]))}
m=muts[sys.argv[2]]
orig=open("/repo/"+m["file"],"rb").read()
new=orig[:m["start"]]+m["repl"].encode()+orig[m["end"]:]
a=orig.decode().splitlines(keepends=True); b=new.decode().splitlines(keepends=True)
sys.stdout.write("diff --git a/%s b/%s\n"%(m["file"],m["file"]))
sys.stdout.writelines(difflib.unified_diff(a,b,"a/"+m["file"],"b/"+m["file"]))
